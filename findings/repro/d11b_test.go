package repro

import (
	"bytes"
	"math/big"
	"testing"

	g "github.com/zenon-network/go-zenon/chain/genesis/mock"
	"github.com/zenon-network/go-zenon/chain/nom"
	"github.com/zenon-network/go-zenon/common/types"
	"github.com/zenon-network/go-zenon/vm"
	"github.com/zenon-network/go-zenon/vm/embedded/definition"
	"github.com/zenon-network/go-zenon/zenon/mock"
)

// D11b: a contract receive delivered by a peer is compared with the regenerated block only through
// ChangesHash and Hash; BasePlasma/TotalPlasma (not in the hash pre-image, serialised) of the
// delivered block and of its descendants are stored as delivered (enoughPlasma returns early for
// embedded addresses, so they are not overwritten).
func TestD11bContractReceiveVariant(t *testing.T) {
	z := mock.NewMockZenon(t)
	defer z.StopPanic()
	// a call to the plasma contract: fuse
	z.InsertSendBlock(&nom.AccountBlock{
		Address:       g.User1.Address,
		ToAddress:     types.PlasmaContract,
		TokenStandard: types.QsrTokenStandard,
		Amount:        big.NewInt(10 * g.Zexp),
		Data:          definition.ABIPlasma.PackMethodPanic(definition.FuseMethodName, g.User2.Address),
	}, nil, mock.SkipVmChanges)
	z.InsertNewMomentum() // confirms the send; the mock pillar does NOT auto-receive until next tick
	// the mock pillar has already generated the contract receive into the pool (unconfirmed)
	orig0, err := z.Chain().GetFrontierAccountStore(types.PlasmaContract).Frontier()
	if err != nil || orig0 == nil || orig0.BlockType != nom.BlockTypeContractReceive {
		t.Fatalf("no pooled contract receive: %v %v", orig0, err)
	}
	orig := orig0
	variant := orig.Copy()
	variant.TotalPlasma = 12345
	variant.BasePlasma = 777
	t1, e1 := vm.NewSupervisor(z.Chain(), z.Consensus()).ApplyBlock(orig.Copy())
	t2, e2 := vm.NewSupervisor(z.Chain(), z.Consensus()).ApplyBlock(variant)
	t.Logf("D11b original accepted: err=%v ; variant(TotalPlasma=12345,BasePlasma=777) accepted: err=%v", e1, e2)
	if e1 != nil || e2 != nil {
		return
	}
	b1, _ := t1.Block.Serialize()
	b2, _ := t2.Block.Serialize()
	t.Logf("D11b same hash: %v ; same stored bytes: %v ; stored TotalPlasma=%d BasePlasma=%d", t1.Block.Hash == t2.Block.Hash, bytes.Equal(b1, b2), t2.Block.TotalPlasma, t2.Block.BasePlasma)
}
