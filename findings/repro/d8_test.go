package repro

import (
	"testing"

	"github.com/zenon-network/go-zenon/protocol"
	"github.com/zenon-network/go-zenon/protocol/downloader"
	"github.com/zenon-network/go-zenon/vm"
	"github.com/zenon-network/go-zenon/zenon/mock"
)

// Replays, statement by statement, the GetBlockHashesFromNumberMsg case of handleMsg against the real bridge.
func TestD8(t *testing.T) {
	z := mock.NewMockZenon(t)
	defer z.StopPanic()
	z.InsertMomentumsTo(600)
	b := protocol.NewChainBridge(z.Chain(), z.Consensus(), z.Verifier(), vm.NewSupervisor(z.Chain(), z.Consensus()))
	var Number, Amount uint64 = 0, 0
	if Amount > uint64(downloader.MaxHashFetch) {
		Amount = uint64(downloader.MaxHashFetch)
	}
	last, err := b.GetBlockByNumber(Number + Amount - 1)
	if err != nil {
		t.Fatal(err)
	}
	if last == nil {
		last = b.CurrentBlock()
		Amount = last.Height - Number + 1
	}
	if last.Height < Number {
		t.Fatal("short circuit")
	}
	hashes, err := b.GetBlockHashesFromHash(last.Hash, Amount)
	t.Logf("D8 request{Number:0, Amount:0}: Amount after recompute=%d, reply carries %d hashes (limit %d) err=%v", Amount, len(hashes), downloader.MaxHashFetch, err)
}
