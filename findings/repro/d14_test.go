package repro

import (
	"testing"
	"time"

	g "github.com/zenon-network/go-zenon/chain/genesis/mock"
	"github.com/zenon-network/go-zenon/chain/nom"
	"github.com/zenon-network/go-zenon/common/types"
	"github.com/zenon-network/go-zenon/vm/embedded/definition"
	"github.com/zenon-network/go-zenon/vm/embedded/implementation"
	"github.com/zenon-network/go-zenon/vm/vm_context"
	"github.com/zenon-network/go-zenon/zenon/mock"
)

func TestD14LiquidityEpochSkipped(t *testing.T) {
	z := mock.NewMockZenonWithCustomEpochDuration(t, 10*time.Minute)
	defer z.StopPanic()
	z.InsertMomentumsTo(1800) // ~21 epochs past the grace period
	ctx := vm_context.NewAccountContext(z.Chain().GetFrontierMomentumStore(), z.Chain().GetFrontierAccountStore(types.LiquidityContract), z.Consensus().FrontierPillarReader())
	// state of a contract whose Update was not called for a long time
	(&definition.LastEpochUpdate{LastEpoch: -1}).Save(ctx.Storage())
	(&definition.LastUpdateVariable{Height: 0}).Save(ctx.Storage())
	m := &implementation.UpdateEmbeddedLiquidityMethod{MethodName: definition.UpdateMethodName}
	send := &nom.AccountBlock{BlockType: nom.BlockTypeUserSend, Address: g.User1.Address, ToAddress: types.LiquidityContract,
		Amount: new(big0).v(), Data: definition.ABICommon.PackMethodPanic(definition.UpdateMethodName)}
	blocks, err := m.ReceiveBlock(ctx, send)
	last, _ := definition.GetLastEpochUpdate(ctx.Storage())
	t.Logf("D14 err=%v ; mint blocks returned=%d (= %d epochs) ; cursor LastEpoch=%d (= %d epochs marked rewarded)", err, len(blocks), len(blocks)/2, last.LastEpoch, last.LastEpoch+1)
}
