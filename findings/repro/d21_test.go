package repro

import (
	"math/big"
	"testing"
	"time"

	g "github.com/zenon-network/go-zenon/chain/genesis/mock"
	"github.com/zenon-network/go-zenon/chain/nom"
	"github.com/zenon-network/go-zenon/common/types"
	"github.com/zenon-network/go-zenon/vm"
	"github.com/zenon-network/go-zenon/vm/embedded/definition"
	"github.com/zenon-network/go-zenon/wallet"
	"github.com/zenon-network/go-zenon/zenon/mock"
)

// momentumOnly inserts the next momentum like the pillar worker does but without the auto-receive
// step: the state of every node other than the producer when a momentum arrives.
func momentumOnly(t *testing.T, z mock.MockZenon) {
	ch, cs := z.Chain(), z.Consensus()
	insert := ch.AcquireInsert("d21")
	store := ch.GetFrontierMomentumStore()
	previous, err := store.GetFrontierMomentum()
	if err != nil {
		t.Fatal(err)
	}
	timestamp := previous.Timestamp.Add(time.Second * 10)
	producer, err := cs.GetMomentumProducer(timestamp)
	if err != nil {
		t.Fatal(err)
	}
	var coinbase *wallet.KeyPair
	for _, key := range g.PillarKeys {
		if key.Address == *producer {
			coinbase = key
		}
	}
	blocks := ch.GetNewMomentumContent()
	m := &nom.Momentum{ChainIdentifier: ch.ChainIdentifier(), PreviousHash: previous.Hash, Height: previous.Height + 1,
		TimestampUnix: uint64(timestamp.Unix()), Content: nom.NewMomentumContent(blocks), Version: 1}
	m.EnsureCache()
	tx, err := vm.NewSupervisor(ch, cs).GenerateMomentum(&nom.DetailedMomentum{Momentum: m, AccountBlocks: blocks}, coinbase.Signer)
	insert.Unlock()
	if err != nil {
		t.Fatal(err)
	}
	z.Broadcaster().CreateMomentum(tx)
}

// D21: the content of a descendant block of a delivered contract-receive is bound by nothing: the
// parent's hash covers only the descendants' *claimed* Hash fields, and no verifier recomputes them.
func TestD21DescendantContentUnbound(t *testing.T) {
	z := mock.NewMockZenon(t)
	defer z.StopPanic()
	// User1 deposits 100 QSR into the pillar contract, then asks for it back
	z.InsertSendBlock(&nom.AccountBlock{Address: g.User1.Address, ToAddress: types.PillarContract, TokenStandard: types.QsrTokenStandard,
		Amount: big.NewInt(100 * g.Zexp), Data: definition.ABIPillars.PackMethodPanic(definition.DepositQsrMethodName)}, nil, mock.SkipVmChanges)
	z.InsertNewMomentum()
	z.InsertNewMomentum()
	before, _ := z.Chain().GetFrontierMomentumStore().GetAccountStore(g.User1.Address).GetBalance(types.QsrTokenStandard)
	withdraw := z.InsertSendBlock(&nom.AccountBlock{Address: g.User1.Address, ToAddress: types.PillarContract,
		Data: definition.ABIPillars.PackMethodPanic(definition.WithdrawQsrMethodName)}, nil, mock.SkipVmChanges)
	momentumOnly(t, z) // the send is confirmed, the contract-receive has not been generated on this node

	sup := vm.NewSupervisor(z.Chain(), z.Consensus())
	confirmed, _ := z.Chain().GetFrontierMomentumStore().GetAccountBlockByHash(withdraw.Hash)
	exec, err := sup.GenerateAutoReceive(confirmed)
	if err != nil {
		t.Fatal(err)
	}
	genuine := exec.Transaction.Block
	t.Logf("D21 genuine contract-receive %v has %d descendant(s); descendant amount %v", genuine.Hash, len(genuine.DescendantBlocks), genuine.DescendantBlocks[0].Amount)

	// what a peer sends instead: same block, same hashes everywhere, descendant amount multiplied
	forged := genuine.Copy()
	forged.DescendantBlocks[0].Amount = big.NewInt(5000 * g.Zexp)
	t.Logf("D21 forged: top hash unchanged=%v, descendant claimed hash %v, recomputed %v", forged.ComputeHash() == genuine.Hash,
		forged.DescendantBlocks[0].Hash, forged.DescendantBlocks[0].ComputeHash())
	tx, err := sup.ApplyBlock(forged)
	t.Logf("D21 ApplyBlock(forged) error = %v", err)
	if err != nil {
		return
	}
	z.Broadcaster().CreateAccountBlock(tx)
	z.InsertNewMomentum()
	z.InsertNewMomentum()
	hashes, _ := z.Chain().GetFrontierMomentumStore().GetAccountMailbox(g.User1.Address).GetUnreceivedAccountBlockHashes(10)
	for _, h := range hashes {
		b, _ := z.Chain().GetFrontierMomentumStore().GetAccountBlockByHash(h)
		t.Logf("D21 pending for User1: %v amount %v", b.Hash, b.Amount)
		z.InsertReceiveBlock(b.Header(), nil, nil, mock.SkipVmChanges)
	}
	z.InsertNewMomentum()
	z.InsertNewMomentum()
	after, _ := z.Chain().GetFrontierMomentumStore().GetAccountStore(g.User1.Address).GetBalance(types.QsrTokenStandard)
	ti, _ := z.Chain().GetFrontierMomentumStore().GetTokenInfoByTs(types.QsrTokenStandard)
	t.Logf("D21 User1 QSR before withdraw %v, after receiving the descendant %v (gain %v for a 100 QSR deposit); recorded QSR supply still %v",
		before, after, new(big.Int).Sub(after, before), ti.TotalSupply)
}
