package repro

import (
	"math/big"
	"testing"

	g "github.com/zenon-network/go-zenon/chain/genesis/mock"
	"github.com/zenon-network/go-zenon/chain/nom"
	"github.com/zenon-network/go-zenon/common/types"
	"github.com/zenon-network/go-zenon/verifier"
	"github.com/zenon-network/go-zenon/vm"
	"github.com/zenon-network/go-zenon/zenon/mock"
)

func TestD15FrontierGate(t *testing.T) {
	old := verifier.ReceiverMismatchEnforcementHeight
	verifier.ReceiverMismatchEnforcementHeight = 8
	defer func() { verifier.ReceiverMismatchEnforcementHeight = old }()
	z := mock.NewMockZenon(t)
	defer z.StopPanic()
	send := z.InsertSendBlock(&nom.AccountBlock{
		Address: g.User1.Address, ToAddress: g.User2.Address,
		TokenStandard: types.ZnnTokenStandard, Amount: big.NewInt(100 * g.Zexp),
	}, nil, mock.SkipVmChanges)
	z.InsertNewMomentum()
	z.InsertNewMomentum()
	h := z.Chain().GetFrontierMomentumStore().Identifier().Height
	// User3 (NOT the addressee) builds a receive for User1->User2 send, acknowledging the current momentum
	tx, err := vm.NewSupervisor(z.Chain(), z.Consensus()).GenerateFromTemplate(&nom.AccountBlock{
		BlockType: nom.BlockTypeUserReceive, Address: g.User3.Address, FromBlockHash: send.Hash,
	}, g.User3.Signer)
	t.Logf("D15 frontier=%d gate=%d: mismatching receive generated/accepted: err=%v", h, verifier.ReceiverMismatchEnforcementHeight, err)
	if err != nil {
		t.Fatal(err)
	}
	blk := tx.Block
	_, e1 := vm.NewSupervisor(z.Chain(), z.Consensus()).ApplyBlock(blk.Copy())
	t.Logf("D15 node A (frontier %d) ApplyBlock(same block, ack height %d): err=%v", h, blk.MomentumAcknowledged.Height, e1)
	z.InsertMomentumsTo(9)
	h2 := z.Chain().GetFrontierMomentumStore().Identifier().Height
	_, e2 := vm.NewSupervisor(z.Chain(), z.Consensus()).ApplyBlock(blk.Copy())
	t.Logf("D15 node B (frontier %d) ApplyBlock(same block, ack height %d): err=%v", h2, blk.MomentumAcknowledged.Height, e2)
}
