package repro

import (
	"math/big"
	"testing"

	"github.com/zenon-network/go-zenon/chain"
	"github.com/zenon-network/go-zenon/chain/genesis"
	g "github.com/zenon-network/go-zenon/chain/genesis/mock"
	"github.com/zenon-network/go-zenon/common/db"
	"github.com/zenon-network/go-zenon/common/types"
	"github.com/zenon-network/go-zenon/rpc/api"
)

func TestD12GetRange(t *testing.T) {
	s, e := api.GetRange(1<<22, 1024, 5000)
	t.Logf("D12 GetRange(pageIndex=2^22, pageSize=1024, len=5000) = [%d,%d)  (expected empty [5000,5000))", s, e)
}

func TestD13DuplicateGenesisAddress(t *testing.T) {
	cfg := *g.EmbeddedGenesis
	blocks := *cfg.GenesisBlocks
	var list []*genesis.GenesisBlockConfig
	var full *big.Int
	for _, b := range blocks.Blocks {
		if b.Address == g.User1.Address {
			full = new(big.Int).Set(b.BalanceList[types.ZnnTokenStandard])
			half := new(big.Int).Quo(full, big.NewInt(2))
			rest := new(big.Int).Sub(full, half)
			m1 := map[types.ZenonTokenStandard]*big.Int{}
			m2 := map[types.ZenonTokenStandard]*big.Int{}
			for k, v := range b.BalanceList {
				m1[k], m2[k] = v, big.NewInt(0)
			}
			m1[types.ZnnTokenStandard], m2[types.ZnnTokenStandard] = half, rest
			// QSR etc: all in first entry, zero in second -> second overwrites with 0
			list = append(list, &genesis.GenesisBlockConfig{Address: b.Address, BalanceList: m1}, &genesis.GenesisBlockConfig{Address: b.Address, BalanceList: m2})
		} else {
			list = append(list, b)
		}
	}
	cfg.GenesisBlocks = &genesis.GenesisBlocksConfig{Blocks: list}
	t.Logf("D13 CheckGenesis(config with User1 listed twice, entries summing to the original) = %v", genesis.CheckGenesis(&cfg))
	ch := chain.NewChain(db.NewLevelDBManager(t.TempDir()), genesis.NewGenesis(&cfg))
	if err := ch.Init(); err != nil {
		t.Fatal(err)
	}
	fs := ch.GetFrontierMomentumStore()
	bal, _ := fs.GetAccountStore(g.User1.Address).GetBalance(types.ZnnTokenStandard)
	ti, _ := fs.GetTokenInfoByTs(types.ZnnTokenStandard)
	t.Logf("D13 declared for User1 in total: %v ; balance in genesis state: %v ; ZNN TotalSupply still %v", full, bal, ti.TotalSupply)
}
