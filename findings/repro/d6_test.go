package repro

import (
	"testing"

	"github.com/zenon-network/go-zenon/chain/nom"
	"github.com/zenon-network/go-zenon/pow"
	"github.com/zenon-network/go-zenon/vm"
)

// D6: for difficulty >= 2^63 every nonce passes CheckPoWNonce and the block is granted the maximum PoW plasma.
func TestD6PowSignTruncation(t *testing.T) {
	for _, d := range []uint64{1 << 63, 1<<63 + 12345, ^uint64(0), 1 << 62, 141750000} {
		ok := 0
		for n := 0; n < 200; n++ {
			b := &nom.AccountBlock{Difficulty: d}
			b.Nonce.Data[0] = byte(n)
			if pow.CheckPoWNonce(b) {
				ok++
			}
		}
		t.Logf("D6 difficulty=%d accepted %d/200 arbitrary nonces; plasma granted=%d", d, ok, vm.DifficultyToPlasma(d))
	}
}
