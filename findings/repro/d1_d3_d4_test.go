package repro

import (
	"testing"

	"github.com/zenon-network/go-zenon/common"
	"github.com/zenon-network/go-zenon/common/db"
)

// D3: a historical view reports a key created by a later commit as present-and-empty.
// D1: Add on a stale parent is accepted and rewrites the frontier.
func TestD3HistoricalViewAndD1StaleParent(t *testing.T) {
	m := db.NewLevelDBManager(t.TempDir())
	t1 := mk(m.Frontier(), "1", func(d db.DB) { d.Put([]byte("a"), []byte("1")) })
	common.DealWithErr(m.Add(t1))
	id1 := t1.c.Identifier()
	atFrontier := m.Get(id1)
	has0, _ := atFrontier.Has([]byte("b"))
	_, err0 := atFrontier.Get([]byte("b"))
	t.Logf("D3 view@1 while it is the frontier : Has(b)=%v Get(b) err=%v", has0, err0)
	common.DealWithErr(m.Add(mk(m.Frontier(), "2", func(d db.DB) { d.Put([]byte("b"), []byte("2")) })))
	hist := m.Get(id1)
	has1, _ := hist.Has([]byte("b"))
	v1, err1 := hist.Get([]byte("b"))
	t.Logf("D3 view@1 after commit 2 created b : Has(b)=%v Get(b)=%q err=%v", has1, v1, err1)

	t3 := mk(m.Get(id1), "3", func(d db.DB) { d.Put([]byte("c"), []byte("3")) })
	err := m.Add(t3)
	t.Logf("D1 Add(parent = stale id1, real frontier at height 2): err=%v ; frontier now=%v\n%s", err, db.GetFrontierIdentifier(m.Frontier()), db.DebugDB(m.Frontier()))
}

// D4: undo-overlay cache survives Pop; a view below the fork shows the new branch's writes.
func TestD4CacheAfterRollback(t *testing.T) {
	m := db.NewLevelDBManager(t.TempDir())
	t1 := mk(m.Frontier(), "1", func(d db.DB) { d.Put([]byte("a"), []byte("1")) })
	common.DealWithErr(m.Add(t1))
	id1 := t1.c.Identifier()
	common.DealWithErr(m.Add(mk(m.Frontier(), "2", func(d db.DB) { d.Put([]byte("x"), []byte("old2")) })))
	common.DealWithErr(m.Add(mk(m.Frontier(), "3", func(d db.DB) { d.Put([]byte("y"), []byte("old3")) })))
	_ = m.Get(id1) // warm the cache
	common.DealWithErr(m.Pop())
	common.DealWithErr(m.Pop())
	common.DealWithErr(m.Add(mk(m.Frontier(), "2b", func(d db.DB) { d.Put([]byte("a"), []byte("CHANGED")) })))
	common.DealWithErr(m.Add(mk(m.Frontier(), "3b", func(d db.DB) { d.Put([]byte("z"), []byte("new3")) })))
	h := m.Get(id1)
	va, ea := h.Get([]byte("a"))
	vz, ez := h.Get([]byte("z"))
	t.Logf("D4 view@1 after reorg with warm cache: a=%q err=%v (want \"1\") ; z=%q err=%v (want not found)", va, ea, vz, ez)
}
