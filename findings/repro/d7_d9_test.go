package repro

import (
	"fmt"
	"testing"

	"github.com/zenon-network/go-zenon/chain/nom"
	"github.com/zenon-network/go-zenon/common/types"
	"github.com/zenon-network/go-zenon/protocol"
	"github.com/zenon-network/go-zenon/vm"
	"github.com/zenon-network/go-zenon/zenon/mock"
)

func try(name string, f func()) (res string) {
	defer func() {
		if r := recover(); r != nil {
			res = fmt.Sprintf("%s: PANIC %v", name, r)
		}
	}()
	f()
	return name + ": returned normally"
}

func TestD7D9(t *testing.T) {
	z := mock.NewMockZenon(t)
	defer z.StopPanic()
	z.InsertMomentumsTo(5)
	b := protocol.NewChainBridge(z.Chain(), z.Consensus(), z.Verifier(), vm.NewSupervisor(z.Chain(), z.Consensus()))
	t.Log(try("D7 GetBlockHashesFromHash(unknown hash)", func() { b.GetBlockHashesFromHash(types.NewHash([]byte("nope")), 10) }))
	m := &nom.Momentum{Height: 1000, Hash: types.NewHash([]byte("x")), PreviousHash: types.NewHash([]byte("y"))}
	m.EnsureCache()
	t.Log(try("D9 InsertChain(head far above frontier)", func() { b.InsertChain([]*nom.DetailedMomentum{{Momentum: m}}) }))
	m0 := &nom.Momentum{Height: 0, Hash: types.NewHash([]byte("x")), PreviousHash: types.NewHash([]byte("y"))}
	m0.EnsureCache()
	t.Log(try("D9 InsertChain(head height 0)", func() { b.InsertChain([]*nom.DetailedMomentum{{Momentum: m0}}) }))
}
