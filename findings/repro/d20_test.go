package repro

import (
	"testing"

	"github.com/zenon-network/go-zenon/chain/nom"
	"github.com/zenon-network/go-zenon/common/types"
	"github.com/zenon-network/go-zenon/protocol"
	"github.com/zenon-network/go-zenon/vm"
	"github.com/zenon-network/go-zenon/zenon/mock"
)

// D20: InsertChain rolls the node back on the strength of unverified, peer-supplied headers and only
// then verifies; a garbage side chain that merely *claims* to be longer costs the node its last momentums.
func TestD20RollbackBeforeVerification(t *testing.T) {
	z := mock.NewMockZenon(t)
	defer z.StopPanic()
	z.InsertMomentumsTo(40)
	fs := z.Chain().GetFrontierMomentumStore()
	before := fs.Identifier()
	fork, _ := fs.GetMomentumByHeight(before.Height - 25) // a momentum of ours, 25 below the frontier
	var batch []*nom.DetailedMomentum
	prev := fork.Identifier()
	for h := fork.Height + 1; h <= before.Height+1; h++ { // unsigned garbage, one longer than our chain
		m := &nom.Momentum{Version: 1, ChainIdentifier: fork.ChainIdentifier, Height: h, PreviousHash: prev.Hash,
			TimestampUnix: fork.TimestampUnix + (h-fork.Height)*10, Hash: types.NewHash([]byte{byte(h), 0xee})}
		m.EnsureCache()
		batch = append(batch, &nom.DetailedMomentum{Momentum: m})
		prev = m.Identifier()
	}
	b := protocol.NewChainBridge(z.Chain(), z.Consensus(), z.Verifier(), vm.NewSupervisor(z.Chain(), z.Consensus()))
	idx, err := b.InsertChain(batch)
	after := z.Chain().GetFrontierMomentumStore().Identifier()
	t.Logf("D20 InsertChain(garbage side chain forking 25 below frontier): index=%d err=%v", idx, err)
	t.Logf("D20 frontier before=%d after=%d (node abandoned %d verified momentums for a chain whose first element failed verification)", before.Height, after.Height, before.Height-after.Height)
}
