package repro

import (
	"fmt"
	"sync/atomic"
	"testing"

	"github.com/zenon-network/go-zenon/common"
	"github.com/zenon-network/go-zenon/common/db"
	"github.com/zenon-network/go-zenon/common/types"
)

type mc struct {
	hash, prev types.Hash
	height     uint64
}

func (m *mc) Identifier() types.HashHeight { return types.HashHeight{Height: m.height, Hash: m.hash} }
func (m *mc) Previous() types.HashHeight   { return types.HashHeight{Height: m.height - 1, Hash: m.prev} }
func (m *mc) Serialize() ([]byte, error) {
	return common.JoinBytes(m.hash.Bytes(), m.prev.Bytes()), nil
}

type tx struct {
	p db.Patch
	c db.Commit
}

func (t *tx) GetCommits() []db.Commit { return []db.Commit{t.c} }
func (t *tx) StealChanges() db.Patch  { p := t.p; t.p = nil; return p }
func mk(view db.DB, name string, f func(db.DB)) *tx {
	fr := db.GetFrontierIdentifier(view)
	f(view)
	ch, _ := view.Changes()
	return &tx{p: ch, c: &mc{hash: types.NewHash([]byte(name)), prev: fr.Hash, height: fr.Height + 1}}
}

// A concurrent reader stands in for "the process stops here": every snapshot it takes is a state a crash could leave behind.
func TestD2D5NonAtomicPop(t *testing.T) {
	mixed := 0
	for round := 0; round < 20 && mixed == 0; round++ {
		m := db.NewLevelDBManager(t.TempDir())
		common.DealWithErr(m.Add(mk(m.Frontier(), "1", func(d db.DB) { d.Put([]byte("a"), []byte("1")) })))
		common.DealWithErr(m.Add(mk(m.Frontier(), "2", func(d db.DB) {
			for i := 0; i < 20000; i++ {
				d.Put([]byte(fmt.Sprintf("k%05d", i)), []byte("v"))
			}
		})))
		var stop int32
		done := make(chan struct{})
		go func() {
			defer close(done)
			for atomic.LoadInt32(&stop) == 0 {
				v := m.Frontier()
				h := db.GetFrontierIdentifier(v).Height
				first, _ := v.Has([]byte("k00000"))
				lastK, _ := v.Has([]byte("k19999"))
				if (h == 1) != (!first) || first != lastK {
					mixed++
					t.Logf("D2/D5 reader saw frontier height=%d with k00000 present=%v k19999 present=%v  (neither the state before nor after the rollback)", h, first, lastK)
					return
				}
			}
		}()
		common.DealWithErr(m.Pop())
		atomic.StoreInt32(&stop, 1)
		<-done
		m.Stop()
	}
	t.Logf("D2/D5 mixed states observed: %d", mixed)
}
