package repro

import "math/big"

type big0 struct{}

func (*big0) v() *big.Int { return big.NewInt(0) }
