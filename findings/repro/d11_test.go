package repro

import (
	"bytes"
	"math/big"
	"testing"

	g "github.com/zenon-network/go-zenon/chain/genesis/mock"
	"github.com/zenon-network/go-zenon/chain/nom"
	"github.com/zenon-network/go-zenon/common/types"
	"github.com/zenon-network/go-zenon/vm"
	"github.com/zenon-network/go-zenon/zenon/mock"
)

func TestD11ChangesHashVariant(t *testing.T) {
	z := mock.NewMockZenon(t)
	defer z.StopPanic()
	sup := vm.NewSupervisor(z.Chain(), z.Consensus())
	tx, err := sup.GenerateFromTemplate(&nom.AccountBlock{
		BlockType:     nom.BlockTypeUserSend,
		Address:       g.User1.Address,
		ToAddress:     g.User2.Address,
		TokenStandard: types.ZnnTokenStandard,
		Amount:        big.NewInt(100 * g.Zexp),
	}, g.User1.Signer)
	if err != nil {
		t.Fatal(err)
	}
	orig := tx.Block
	variant := orig.Copy()
	variant.ChangesHash[0] ^= 0xff
	variant.PublicKey = append([]byte{}, orig.PublicKey...)
	t1, e1 := vm.NewSupervisor(z.Chain(), z.Consensus()).ApplyBlock(orig.Copy())
	t2, e2 := vm.NewSupervisor(z.Chain(), z.Consensus()).ApplyBlock(variant)
	t.Logf("D11 original accepted: err=%v ; variant(ChangesHash flipped) accepted: err=%v", e1, e2)
	if e1 != nil || e2 != nil {
		t.Fatalf("unexpected")
	}
	b1, _ := t1.Block.Serialize()
	b2, _ := t2.Block.Serialize()
	t.Logf("D11 same hash: %v ; same stored bytes: %v", t1.Block.Hash == t2.Block.Hash, bytes.Equal(b1, b2))
}
