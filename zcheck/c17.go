package main

import (
	"fmt"
	"go/types"
	"sort"
	"strings"

	"golang.org/x/tools/go/ssa"
)

// C17 — spork-gated rules switch on by chain height only, identically everywhere.

func init() {
	register(&propDef{
		ID: "C17",
		Explain: "Structural necessary conditions: (1) K1 the spork predicate IsSporkActive is consulted only on a block's own view (vm_context.Is*SporkEnforced reads ctx.momentumStore) and by RPC; GetEmbeddedMethod selects the contract table only through those context predicates, and the mapping predicate→table is checked on the SSA phi (htlc ⊃ bridge&liquidity ⊃ accelerator ⊃ origin, most recent first); " +
			"(2) K3 IsSporkActive: active iff Activated ∧ EnforcementHeight ≤ frontier height ∧ Id = implemented spork id, never at height 1; (3) K5/K4 table construction: each later table is built from a fresh copy of the earlier one (no aliasing of a shared map) and nobody writes into a table after package initialisation; every *ImplementedSpork variable is a key of ImplementedSporksMap; " +
			"(4) K3+K4 spork contract: only SporkAddress/CommunitySporkAddress (the latter inside its height window) may create/activate; an activated spork cannot be activated again; EnforcementHeight = frontier height + SporkMinHeightDelay; a created spork is stored inactive with height 0 and id = send hash; " +
			"(5) K2 GotAllActiveSporksImplemented is on every success path of chain.Init and AddMomentumTransaction and its unimplemented edge reaches os.Exit; (6) send-time validation and receive-time execution resolve the method through the same GetEmbeddedMethod(context,…) and a method that disappeared is refunded.",
		NotDec: "behaviour exactly at the boundary heights on two nodes (values); D15: the receiver-mismatch height gate in verifier.fromHash reads the node's frontier rather than the acknowledged view (recorded under C03/C02 as a note, not a spork).",
		Run:    runC17,
		Controls: []control{
			{Name: "table-aliased", File: "vm/embedded/embedded.go", Old: "func getHtlc() map[types.Address]*embeddedImplementation {\n\tcontracts := getBridgeAndLiquidity()", New: "func getHtlc() map[types.Address]*embeddedImplementation {\n\tcontracts := bridgeAndLiquidityEmbedded", ExpectKeySub: "getHtlc"},
			{Name: "activated-dropped", File: "chain/momentum/embedded.go", Old: "if spork.Activated && spork.EnforcementHeight <= frontier.Height && spork.Id == implemented.SporkId {", New: "if spork.EnforcementHeight <= frontier.Height && spork.Id == implemented.SporkId {", ExpectKeySub: "IsSporkActive"},
			{Name: "height-lt", File: "chain/momentum/embedded.go", Old: "spork.EnforcementHeight <= frontier.Height && spork.Id", New: "spork.EnforcementHeight < frontier.Height && spork.Id", ExpectKeySub: "IsSporkActive"},
			{Name: "frontier-store-in-context", File: "vm/vm_context/spork.go", Old: "func (ctx *accountVmContext) IsHtlcSporkEnforced() bool {\n\tactive, err := ctx.momentumStore.IsSporkActive(types.HtlcSpork)", New: "func (ctx *accountVmContext) IsHtlcSporkEnforced() bool {\n\tactive, err := ctx.momentumStore.IsSporkActive(types.BridgeAndLiquiditySpork)", ExpectKeySub: "IsHtlcSporkEnforced"},
			{Name: "swapped-tables", File: "vm/embedded/embedded.go", Old: "\tif context.IsHtlcSporkEnforced() {\n\t\tcontractsMap = htlcEmbedded", New: "\tif context.IsHtlcSporkEnforced() {\n\t\tcontractsMap = bridgeAndLiquidityEmbedded", ExpectKeySub: "predicate→table"},
			{Name: "reactivation-allowed", File: "vm/embedded/implementation/spork.go", Old: "\tif spork.Activated {\n", New: "\tif spork.Activated && spork.EnforcementHeight == 0 {\n", ExpectKeySub: "Activated"},
			{Name: "no-delay", File: "vm/embedded/implementation/spork.go", Old: "spork.EnforcementHeight = frontierMomentum.Height + constants.SporkMinHeightDelay", New: "spork.EnforcementHeight = frontierMomentum.Height + constants.SporkMinHeightDelay - constants.SporkMinHeightDelay", ExpectKeySub: "EnforcementHeight"},
			{Name: "unimplemented-continues", File: "chain/momentum_pool.go", Old: "\t\tfmt.Printf(\"znnd is terminating\\n\")\n\t\tos.Exit(2)\n\t} else if justNow != nil {", New: "\t\tfmt.Printf(\"znnd is terminating\\n\")\n\t\t_ = os.Args\n\t} else if justNow != nil {", ExpectKeySub: "os.Exit"},
		},
	})
}

// phiMapping: for the map-typed phi of GetEmbeddedMethod, the (context of the predecessor) → global table pairs.
func phiMapping(r *Run, fn *ssa.Function) map[string]string {
	out := map[string]string{}
	for _, b := range fn.Blocks {
		for _, in := range b.Instrs {
			ph, ok := in.(*ssa.Phi)
			if !ok {
				continue
			}
			if _, isMap := ph.Type().Underlying().(*types.Map); !isMap {
				continue
			}
			for i, e := range ph.Edges {
				tbl := r.P.Env(fn).of(e).String()
				var cs []string
				for _, c := range r.blockCtx(fn, b.Preds[i]) {
					cs = append(cs, c.String())
				}
				// the edge pred→phi block itself may be a branch edge
				if ifi, ok := lastInstr(b.Preds[i]).(*ssa.If); ok {
					c := r.P.Env(fn).condOf(ifi.Cond)
					if b.Preds[i].Succs[0] == b {
						cs = append(cs, c.String())
					} else {
						cs = append(cs, c.Negate().String())
					}
				}
				sort.Strings(cs)
				out[strings.Join(cs, " & ")] = tbl
			}
		}
	}
	return out
}

func runC17(r *Run) {
	const impl = "vm/embedded/implementation."
	// (1) who consults the predicate, and on which store
	r.WhoMayCall("spork predicate IsSporkActive", []string{"iface:chain/store:Momentum.IsSporkActive"},
		[]string{"vm/vm_context.(*accountVmContext).IsAcceleratorSporkEnforced", "vm/vm_context.(*accountVmContext).IsHtlcSporkEnforced", "vm/vm_context.(*accountVmContext).IsBridgeAndLiquiditySporkEnforced", "rpc/api/*"},
		"a spork must be evaluated against the momentum a block acknowledges, i.e. through the block's own context")
	for m, s := range map[string]string{"IsAcceleratorSporkEnforced": "AcceleratorSpork", "IsHtlcSporkEnforced": "HtlcSpork", "IsBridgeAndLiquiditySporkEnforced": "BridgeAndLiquiditySpork"} {
		f := "vm/vm_context.(*accountVmContext)." + m
		r.Has(f, "recv.momentumStore.IsSporkActive(types."+s+")", "the predicate reads the context's own momentum view and asks for its own spork")
		r.Returns(f, []string{"recv.momentumStore.IsSporkActive(types." + s + ")#0"}, "the verdict is returned unmodified")
	}
	gm := "vm/embedded.GetEmbeddedMethod"
	r.Alias("$t", "phi(embedded.acceleratorEmbedded|embedded.bridgeAndLiquidityEmbedded|embedded.htlcEmbedded|embedded.originEmbedded)")
	if fn := r.fn(gm); fn != nil {
		file, line := r.P.FnPos(fn)
		got := phiMapping(r, fn)
		want := map[string]string{
			"T(a0.IsHtlcSporkEnforced())": "embedded.htlcEmbedded",
			"F(a0.IsHtlcSporkEnforced()) & T(a0.IsBridgeAndLiquiditySporkEnforced())":                                     "embedded.bridgeAndLiquidityEmbedded",
			"F(a0.IsBridgeAndLiquiditySporkEnforced()) & F(a0.IsHtlcSporkEnforced()) & T(a0.IsAcceleratorSporkEnforced())": "embedded.acceleratorEmbedded",
			"F(a0.IsAcceleratorSporkEnforced()) & F(a0.IsBridgeAndLiquiditySporkEnforced()) & F(a0.IsHtlcSporkEnforced())": "embedded.originEmbedded",
		}
		ok := len(got) == len(want)
		for k, v := range want {
			if got[k] != v {
				ok = false
			}
		}
		if ok {
			r.pass("K4-predicate-table", gm, "predicate→table mapping", "4 arms, most recent spork first", "each spork predicate selects exactly its own contract table", file, line)
		} else {
			var gs []string
			for k, v := range got {
				gs = append(gs, k+" → "+v)
			}
			sort.Strings(gs)
			r.viol("K4-predicate-table", gm, "predicate→table mapping", "GetEmbeddedMethod maps spork predicates to tables differently from the reference: "+strings.Join(gs, " ; "), "each spork predicate selects exactly its own contract table", file, line)
		}
	}
	r.Guards([]row{
		{F: gm, C: "F(types.IsEmbeddedAddress(a1))", Why: "non-contract addresses have no method"},
	})
	r.GuardLike(gm, "F(phi(embedded.acceleratorEmbedded|embedded.bridgeAndLiquidityEmbedded|embedded.htlcEmbedded|embedded.originEmbedded)[a1]#1)", "a contract absent from the selected table does not exist at that height")
	r.Returns(gm, []string{"nil, constants.ErrNotContractAddress", "nil, constants.ErrContractDoesntExist", "nil, constants.ErrContractMethodNotFound",
		"$t[a1]#0.m[$t[a1]#0.abi.MethodById(a2)#0.Name]#0, nil"}, "the method comes from the selected table only")
	_ = 0

	// (2) the predicate
	is := "chain/momentum.(*momentumStore).IsSporkActive"
	r.Alias("$sp", "recv.GetAllDefinedSporks()#0[iter]")
	r.Branch(is, "T($sp.Activated)", "only activated sporks count")
	r.Branch(is, "le($sp.EnforcementHeight,recv.GetFrontierMomentum()#0.Height)", "active from the enforcement height on, measured on the view's own frontier")
	r.Branch(is, "eq(a0.SporkId,$sp.Id)", "the asked spork is matched by id")
	r.Branch(is, "eq(1,recv.GetFrontierMomentum()#0.Height)", "nothing is active in the genesis view")
	r.Returns(is, []string{"false, recv.GetFrontierMomentum()#1", "false, nil", "false, recv.GetAllDefinedSporks()#1", "true, nil"}, "verdict forms")
	r.Guards([]row{{F: is, C: "ne(nil,recv.GetFrontierMomentum()#1)", Why: "lookup failure is an error"}})

	// (3) table construction
	for f, base := range map[string]string{"vm/embedded.getHtlc": "embedded.getBridgeAndLiquidity()", "vm/embedded.getBridgeAndLiquidity": "embedded.getAccelerator()", "vm/embedded.getAccelerator": "embedded.getOrigin()"} {
		r.Returns(f, []string{base}, "each later table is a fresh copy of the earlier one plus its own contracts: built by calling the earlier constructor, never by mutating a shared table")
	}
	r.HasPrefix("vm/embedded.getHtlc", "store embedded.getBridgeAndLiquidity()[types.HtlcContract] = ", "htlc table adds the HTLC contract")
	r.HasPrefix("vm/embedded.getBridgeAndLiquidity", "store embedded.getAccelerator()[types.BridgeContract] = ", "bridge&liquidity table adds the bridge contract")
	r.HasPrefix("vm/embedded.getAccelerator", "store embedded.getOrigin()[types.AcceleratorContract] = ", "accelerator table adds the accelerator contract")
	// nobody writes into a table after init
	nw := 0
	for _, name := range r.P.FuncNames() {
		fn := r.P.Fn(name)
		if fn.Blocks == nil || isScaffolding(name) {
			continue
		}
		for _, e := range r.P.Effects(fn) {
			if e.Kind != "store" {
				continue
			}
			for _, g := range []string{"embedded.originEmbedded", "embedded.acceleratorEmbedded", "embedded.htlcEmbedded", "embedded.bridgeAndLiquidityEmbedded"} {
				if strings.HasPrefix(e.Canon, "store "+g+"[") || strings.HasPrefix(e.Canon, "store "+g+" =") && name != "vm/embedded.init" {
					nw++
					r.viol("K1-who-may-write", name, "contract table "+g, fmt.Sprintf("%s writes into the contract table %s after initialisation (%s:%d)", name, g, e.File, e.Line), "tables are immutable after package initialisation; a write would change the rules for every height at once", e.File, e.Line)
				}
			}
		}
	}
	if nw == 0 {
		r.pass("K1-who-may-write", "", "contract tables immutable", "no store into any of the four tables outside package init", "tables are immutable after package initialisation", "", 0)
	}
	// implemented sporks
	if pk := r.P.Pkg("common/types"); pk != nil {
		var sporks []string
		sc := pk.Types.Scope()
		for _, n := range sc.Names() {
			if v, ok := sc.Lookup(n).(*types.Var); ok && shortType(v.Type()) == "*types.ImplementedSpork" {
				sporks = append(sporks, n)
			}
		}
		init := r.fn("common/types.init")
		if init != nil {
			r.Has("common/types.init", "store types.ImplementedSporksMap = make(map[types.Hash]bool)", "the implemented-sporks set is that map")
			for _, s := range sporks {
				r.Has("common/types.init", "store make(map[types.Hash]bool)[types."+s+".SporkId] = true", "every spork this binary implements is declared implemented, or the node would exit on its activation")
			}
		}
		if len(sporks) == 0 {
			r.viol("vacuous-rule", "", "implemented sporks", "no *ImplementedSpork variable found", "", "", 0)
		}
	}

	// (4) spork contract
	r.Alias("$s", "definition.GetSporkInfoById(a0.Storage(),new(types.Hash))")
	rows := []row{
		{F: impl + "(*CreateSporkMethod).ValidateSendBlock", C: "ne(a0.Address,types.CommunitySporkAddress) @ ne(a0.Address,types.SporkAddress)", Why: "only the designated keys create sporks"},
		{F: impl + "(*CreateSporkMethod).ValidateSendBlock", C: "ne(0,a0.Amount)", Why: "no value attached"},
		{F: impl + "(*CreateSporkMethod).ReceiveBlock", C: "ne(nil,recv.ValidateSendBlock(a1))", Why: "receive re-validates"},
		{F: impl + "(*CreateSporkMethod).ReceiveBlock", C: "ne(implementation.checkCommunitySporkAddressValidity(a0),nil) @ eq(a1.Address,types.CommunitySporkAddress)", Why: "the community key is valid only inside its height window"},
		{F: impl + "(*ActivateSporkMethod).ValidateSendBlock", C: "ne(a0.Address,types.CommunitySporkAddress) @ ne(a0.Address,types.SporkAddress)", Why: "only the designated keys activate sporks"},
		{F: impl + "(*ActivateSporkMethod).ValidateSendBlock", C: "ne(0,a0.Amount)", Why: "no value attached"},
		{F: impl + "(*ActivateSporkMethod).ReceiveBlock", C: "ne(nil,recv.ValidateSendBlock(a1))", Why: "receive re-validates"},
		{F: impl + "(*ActivateSporkMethod).ReceiveBlock", C: "ne(implementation.checkCommunitySporkAddressValidity(a0),nil) @ eq(a1.Address,types.CommunitySporkAddress)", Why: "community window"},
		{F: impl + "(*ActivateSporkMethod).ReceiveBlock", C: "eq($s,nil)", Pre: []string{"vm/embedded/definition.(*Spork).Save"}, Why: "unknown spork cannot be activated"},
		{F: impl + "(*ActivateSporkMethod).ReceiveBlock", C: "T($s.Activated)", Pre: []string{"vm/embedded/definition.(*Spork).Save"}, Why: "activation cannot be repeated (it would move the enforcement height)"},
		{F: impl + "checkCommunitySporkAddressValidity", C: "lt(a0.GetFrontierMomentum()#0.Identifier().Height,definition.CommunitySporkAddressStartHeight)", Why: "window start"},
		{F: impl + "checkCommunitySporkAddressValidity", C: "le(definition.CommunitySporkAddressEndHeight,a0.GetFrontierMomentum()#0.Identifier().Height)", Why: "window end"},
	}
	r.Guards(rows)
	act := impl + "(*ActivateSporkMethod).ReceiveBlock"
	r.Has(act, "store $s.Activated = true", "activation is recorded")
	r.Has(act, "store $s.EnforcementHeight = (a0.GetFrontierMomentum()#0.Height+constants.SporkMinHeightDelay)", "activation takes effect only after the minimum delay, counted from the acknowledged view's height")
	r.Always(act, "$s.Save(a0.Storage())", "the activated spork is persisted")
	cr := impl + "(*CreateSporkMethod).ReceiveBlock"
	r.Has(cr, "store new(definition.Spork).Activated = false", "a created spork is inactive")
	r.Has(cr, "store new(definition.Spork).EnforcementHeight = 0", "a created spork has no enforcement height")
	r.Has(cr, "store new(definition.Spork).Id = a1.Hash", "spork id = hash of the creating send")

	// (5) unimplemented enforced spork stops the node
	ga := "chain.GotAllActiveSporksImplemented"
	r.Alias("$gs", "a0.GetAllDefinedSporks()#0[iter]")
	r.Branch(ga, "T($gs.Activated)", "same activation test as the predicate")
	r.Branch(ga, "le($gs.EnforcementHeight,a0.GetFrontierMomentum()#0.Height)", "same height test as the predicate")
	r.Branch(ga, "T(types.ImplementedSporksMap[$gs.Id]#1)", "membership in the implemented set")
	for f, st := range map[string]string{"chain.(*chain).Init": "recv.momentumPool.GetFrontierMomentumStore()", "chain.(*momentumPool).AddMomentumTransaction": "recv.getFrontierStore()"} {
		r.MustPass(f, "chain.GotAllActiveSporksImplemented", "every start and every inserted momentum checks for enforced but unimplemented sporks")
		r.Guards([]row{
			{F: f, C: "ne(chain.GotAllActiveSporksImplemented(" + st + ")#1,nil)", Why: "an enforced spork this binary does not implement stops the node instead of continuing under unknown rules"},
			{F: f, C: "ne(chain.GotAllActiveSporksImplemented(" + st + ")#2,nil)", Why: "a failed spork lookup is an error"},
		})
		r.OnCondMustCall(f, "ne(chain.GotAllActiveSporksImplemented("+st+")#1,nil)", "os.Exit", "the unimplemented edge terminates the process")
		r.Has(f, "os.Exit(2)", "process exit")
	}

	// (6) send/receive agreement
	r.Has("vm.(*VM).applySend", "embedded.GetEmbeddedMethod(recv.context,a0.ToAddress,a0.Data)", "send-time validation resolves the method through the block's context")
	r.Has("vm.(*VM).generateEmbeddedReceive", "embedded.GetEmbeddedMethod(recv.context,recv.context.MomentumStore().GetAccountBlockByHash(a0)#0.ToAddress,recv.context.MomentumStore().GetAccountBlockByHash(a0)#0.Data)", "receive-time execution resolves the method the same way")
	r.Has("vm.GetBasePlasmaForAccountBlock", "embedded.GetEmbeddedMethod(a0,a1.ToAddress,a1.Data)", "pricing resolves the method the same way")
	r.OnCondMustCall("vm.(*VM).generateEmbeddedReceive", "eq(constants.ErrContractMethodNotFound,embedded.GetEmbeddedMethod(recv.context,recv.context.MomentumStore().GetAccountBlockByHash(a0)#0.ToAddress,recv.context.MomentumStore().GetAccountBlockByHash(a0)#0.Data)#1)", "vm.(*VM).rollbackEmbedded", "a call accepted before a spork removed its method is refunded at receive time")
}
