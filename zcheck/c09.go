package main

import (
	"fmt"
	"strings"
)

// C09 — every accepted call to an embedded contract completes or refunds.

var producerPanicTriage = map[string]string{
	"chain/account.(*accountStore).SequencerFront":           "invariant: the verifier always passes the account's own mailbox (C04 row checks the guard exists)",
	"chain/account.NewAccountStore":                          "constructor invariant (nil db); callers obtain the db from the chain's own views",
	"chain/account/mailbox.parseAccountHeader":               "storage I/O / decode of the node's own records on the in-memory overlay (trusted base)",
	"chain/momentum.NewStore":                                "constructor invariant (nil db)",
	"chain/nom.DeSerializeNonce":                             "decode of the node's own stored blocks",
	"common.DealWithErr":                                     "the panic helper itself; its call sites are what the sentinel rule checks",
	"common.RecoverStack":                                    "re-panics by design (not a barrier)",
	"common/db.(*levelDBBatchWrapper).Get":                   "write-only wrapper: never read (C08 rows)",
	"common/db.(*levelDBBatchWrapper).Has":                   "write-only wrapper",
	"common/db.(*levelDBBatchWrapper).NewIterator":           "write-only wrapper",
	"common/db.(*levelDBBatchWrapper).changesInternal":       "write-only wrapper",
	"common/db.(*levelDBROWrapper).Put":                      "read-only layer: merged views write to layer 0 only (C07 rows)",
	"common/db.(*levelDBROWrapper).changesInternal":          "read-only layer is never the first layer of a merged view",
	"common/db.(*levelDBWrapper).changesInternal":            "raw wrapper is never asked for changes",
	"common/types.(Address).String":                          "bech32 of a fixed-size array cannot fail",
	"common/types.(ZenonTokenStandard).String":               "bech32 of a fixed-size array cannot fail",
	"common/types.BytesToHashPanic":                          "used on the node's own fixed-size data",
	"common/types.DeProtoAddress":                            "decode of the node's own stored blocks",
	"common/types.DeProtoHash":                               "decode of the node's own stored blocks",
	"common/types.PubKeyToAddress":                           "SetBytes of a correctly sized digest cannot fail",
	"consensus.(*chainTicker).GetContent":                    "tick overflow guard; ticks come from epochs whose end lies before the frontier (cursor guard, C11)",
	"consensus.(*chainTicker).GetEndBlock":                   "same",
	"consensus.(*chainTicker).HasStarted":                    "same",
	"consensus.(*chainTicker).IsFinished":                    "same",
	"vm.(*Supervisor).newBlockContext":                       "views that verifier.AccountBlock just proved to exist (it runs first in GenerateAutoReceive; C03 path shape)",
	"vm/abi.(ABIContract).PackMethodPanic":                   "packs contract-constructed constants",
	"vm/abi.(ABIContract).PackVariablePanic":                 "packs contract-constructed records",
	"vm/vm_context.(*accountVmContext).SubBalance":           "negative-balance guard (C01); descendants are debited through applySend after enoughFunds, burn after ValidateSendBlock",
}

func init() {
	register(&propDef{
		ID: "C09",
		Explain: "Structural necessary conditions: (1) K5 exhaustive over all implementers of embedded.Method: ReceiveBlock's first effect is ValidateSendBlock on the send block and its failure returns an error with no blocks; (2) error ⇒ refund plumbing in generateEmbeddedReceive/rollbackEmbedded (every failure edge leads to rollback, rollback resets then refunds exactly the sent amount; method-not-found is refunded); " +
			"(3) K8 sentinel errors are handled, not panicked: a path-refined fixpoint computes which vm/constants sentinel errors each function may return; no common.DealWithErr site in vm/ and vm/embedded/implementation receives an error that can still be such a sentinel (one triaged exception under a recover); (4) K3 divisor guards: every big.Int Quo/Div/Mod/Rem and integer / % in vm, implementation, constants, consensus and chain/momentum has a divisor that is a non-zero constant-like value (incl. never-reassigned vm/constants variables), is dominated by a zero test of the same access path (also across a closure capture), or is triaged; " +
			"(5) K8 panic census of the producer path: every explicit panic reachable from Supervisor.GenerateAutoReceive (which has no effective recover: RecoverStack re-panics) is triaged by function; a new one is reported; (6) the verifier's amount bound and the token contract's supply bound agree (TokenMaxSupplyBig = 2^255−1 ⇒ every descendant amount passes BitLen ≤ 255), and the reward-schedule lookups clamp their index.",
		NotDec: "panics from index/nil/conversion on arbitrary decoded arguments inside the reflective ABI; termination/step bounds of the update loops; D10 (GenerateAutoReceive uses the generated block before testing the error returned with it) is latent — no accepted input makes the refund fail today — and is recorded as a note, not armed.",
		Run:    runC09,
		Controls: []control{
			{Name: "receive-skips-validate", File: "vm/embedded/implementation/htlc.go", Old: "func (p *ReclaimHtlcMethod) ReceiveBlock(context vm_context.AccountVmContext, sendBlock *nom.AccountBlock) ([]*nom.AccountBlock, error) {\n\tif err := p.ValidateSendBlock(sendBlock); err != nil {", New: "func (p *ReclaimHtlcMethod) ReceiveBlock(context vm_context.AccountVmContext, sendBlock *nom.AccountBlock) ([]*nom.AccountBlock, error) {\n\tif err := p.ValidateSendBlock(sendBlock); err != nil && sendBlock.Height == 0 {", ExpectKeySub: "ReclaimHtlcMethod"},
			{Name: "sentinel-panicked", File: "vm/embedded/implementation/token.go", Old: "\ttokenInfo, err := definition.GetTokenInfo(context.Storage(), sendBlock.TokenStandard)\n\tif err == constants.ErrDataNonExistent {\n\t\treturn nil, err\n\t}\n\tcommon.DealWithErr(err)\n\n\tif !tokenInfo.IsBurnable", New: "\ttokenInfo, err := definition.GetTokenInfo(context.Storage(), sendBlock.TokenStandard)\n\tcommon.DealWithErr(err)\n\n\tif !tokenInfo.IsBurnable", ExpectKeySub: "K8-sentinel-panic"},
			{Name: "zero-guard-removed", File: "vm/embedded/implementation/stake.go", Old: "\tif cumulatedStake.Sign() == 0 {\n\t\treturn nil\n\t}\n", New: "", ExpectKeySub: "K3-divisor"},
			{Name: "new-panic-on-producer-path", File: "vm/embedded/implementation/stake.go", Old: "\tif cumulatedStake.Sign() == 0 {\n\t\treturn nil\n\t}\n", New: "\tif cumulatedStake.Sign() == 0 {\n\t\tpanic(\"no stake\")\n\t}\n", ExpectKeySub: "K8-panic-census"},
			{Name: "max-supply-2p255", File: "vm/constants/embedded.go", Old: "TokenMaxSupplyBig    = common.BigP255m1", New: "TokenMaxSupplyBig    = common.BigP255", ExpectKeySub: "TokenMaxSupplyBig"},
			{Name: "schedule-index-off-by-one", File: "vm/constants/embedded.go", Old: "func NetworkQsrRewardPerEpoch(epoch uint64) int64 {\n\ttick := int(epoch / RewardTickDurationInEpochs)\n\tif tick >= len(NetworkQsrRewardConfig) {", New: "func NetworkQsrRewardPerEpoch(epoch uint64) int64 {\n\ttick := int(epoch / RewardTickDurationInEpochs)\n\tif tick > len(NetworkQsrRewardConfig) {", ExpectKeySub: "NetworkQsrRewardPerEpoch"},
			{Name: "method-error-not-rolled-back", File: "vm/vm.go", Old: "\tdescendantBlocks, err := method.ReceiveBlock(vm.context, sendBlock)\n\tif err != nil {\n\t\treturn vm.rollbackEmbedded(fromBlockHash, err)\n\t}\n", New: "\tdescendantBlocks, err := method.ReceiveBlock(vm.context, sendBlock)\n\tif err != nil {\n\t\treturn nil, err, nil\n\t}\n", ExpectKeySub: "ReceiveBlock"},
		},
	})
}

func runC09(r *Run) {
	// (0) the generated receive acknowledges what the verifier demands of an auto-generated block
	sbm := "vm.(*Supervisor).setBlockMomentum"
	r.Alias("$fst", "recv.chain.GetFrontierMomentumStore()")
	r.StoreContext(sbm, "store a0.MomentumAcknowledged = $fst.GetMomentumByHeight($fst.GetBlockConfirmationHeight(a0.FromBlockHash)#0)#0.Identifier()", "T(a0.MomentumAcknowledged.IsZero()) & T(types.IsEmbeddedAddress(a0.Address))",
		"a contract-receive acknowledges exactly the momentum that confirmed its send (the verifier refuses any other: ErrABMAInvalidForAutoGenerated) — acknowledging the frontier makes every call whose receive is produced one momentum later unprocessable for ever, wedging the contract's inbox")
	r.StoreContext(sbm, "store a0.MomentumAcknowledged = $fst.GetFrontierMomentum()#0.Identifier()", "F(types.IsEmbeddedAddress(a0.Address)) & T(a0.MomentumAcknowledged.IsZero())", "only user blocks default to the frontier")
	r.Guards([]row{{F: "verifier.(*accountBlockVerifier).momentumAcknowledged", C: "ne(recv.block.MomentumAcknowledged.Height,recv.momentumStore.GetBlockConfirmationHeight(recv.block.FromBlockHash)#0) @ F(verifier.isBatched(recv.block)) & T(verifier.isContractReceive(recv.block))", Why: "verifier side of the same agreement"}})
	// (1) receive re-validates — exhaustive
	why1 := "receive-time execution re-runs the send-time validation (which also canonicalises the data it then unpacks); a method that skips it executes unchecked arguments"
	impls := r.methodImpls("vm/embedded", "Method", "ReceiveBlock")
	n := 0
	for _, f := range impls {
		name := r.P.FuncName(f)
		if name == "" || f.Blocks == nil {
			continue
		}
		n++
		file, line := r.P.FnPos(f)
		fi := r.P.Info(f)
		// first call in the entry block
		first := ""
		for _, cs := range r.P.Calls(f, false) {
			if cs.Instr.Block() == f.Blocks[0] {
				if strings.HasPrefix(cs.Callee, "builtin:") {
					continue
				}
				first = cs.Path.String()
				break
			}
		}
		okGuard := false
		for _, g := range fi.guards {
			if g.Reject != "" && g.RejCond.String() == "ne(nil,recv.ValidateSendBlock(a1))" && len(g.Ctx) == 0 {
				okGuard = true
			}
		}
		if first == "recv.ValidateSendBlock(a1)" && okGuard {
			r.pass("K5-receive-revalidates", name, "ValidateSendBlock(sendBlock) first, failure rejects", "", why1, file, line)
		} else {
			r.viol("K5-receive-revalidates", name, "ValidateSendBlock(sendBlock) first, failure rejects", fmt.Sprintf("%s: the first effect is `%s` (expected recv.ValidateSendBlock(a1)) / unconditional rejecting guard on its error present: %v", name, first, okGuard), why1, file, line)
		}
	}
	if n == 0 {
		r.viol("vacuous-rule", "", "ReceiveBlock implementers", "none found", why1, "", 0)
	}
	r.Notes = append(r.Notes, fmt.Sprintf("K5 receive-revalidates: %d implementers of embedded.Method.ReceiveBlock (exhaustive)", n))

	// (2) refund plumbing
	r.Alias("$send", "recv.context.MomentumStore().GetAccountBlockByHash(a0)#0")
	r.Alias("$method", "embedded.GetEmbeddedMethod(recv.context,$send.ToAddress,$send.Data)")
	gen, rb := "vm.(*VM).generateEmbeddedReceive", "vm.(*VM).rollbackEmbedded"
	r.OnErrorMustCall(gen, ".ReceiveBlock", rb, "a failing contract call is rolled back and refunded, never left half-applied or turned into an internal error")
	r.OnErrorMustCall(gen, "vm.(*VM).applySend", rb, "a descendant that cannot be paid rolls the whole call back")
	r.OnCondMustCall(gen, "eq(constants.ErrContractMethodNotFound,$method#1)", rb, "a method removed between send and receive is refunded")
	r.MustPassAny(gen, []string{".Done", rb}, "exactly one of commit or rollback happens")
	r.Always(gen, "recv.context.SequencerPopFront()", "the inbox advances on every outcome, so a failing call cannot wedge the queue")
	r.FirstEffect(gen, ".SequencerPopFront", "the pop precedes every exit")
	r.Order(rb, ".Reset", ".AddBalance", "refund is paid from the reset state")
	r.Has(rb, "store new(nom.AccountBlock).Amount = new(big.Int).Set($send.Amount)", "exactly the sent amount is returned")
	r.Has(rb, "store new(nom.AccountBlock).ToAddress = $send.Address", "to the sender")
	r.Has(rb, "store new(nom.AccountBlock).TokenStandard = $send.TokenStandard", "in the sent token")
	r.Guards([]row{{F: rb, C: "ne(nil,recv.applySend(new(nom.AccountBlock))) @ lt(0,$send.Amount)", Why: "a refund is made whenever a positive amount was sent"}})
	r.Returns("vm.errToStatus", []string{"1", "2"}, "the receive records success/failure of the call")
	r.Alias("$desc", "phi(append(new([1]*nom.AccountBlock)[:0],list(new(nom.AccountBlock)))|new([1]*nom.AccountBlock)[:0])")
	r.Returns(rb, []string{"nil, nil, recv.applySend(new(nom.AccountBlock))", "recv.finalizeEmbedded(a0,$desc,a1)#0, recv.finalizeEmbedded(a0,$desc,a1)#1, recv.finalizeEmbedded(a0,$desc,a1)#2"}, "a rolled-back call still yields a receive block (with the method's error as its status and the refund as its only descendant), not an internal error")

	// (3) sentinels
	r.SentinelPanics([]string{"vm/embedded/implementation.", "vm."}, map[string]string{
		"vm.enoughPlasma|DealWithErr(vm.GetBasePlasmaForAccountBlock(a0,a1)#1)": "reached only for user blocks, i.e. under Supervisor.applyBlock's recovering defer (C03 row): the panic is a rejection; the producer path (contract receives) returns before it",
	}, "an expected outcome (entry does not exist, not due yet …) must be compared and handled; panicking on it crashes the producing pillar, whose worker has no effective recover")
	r.DefersRecover("vm.(*Supervisor).applyBlock", "panics inside verification/execution of a submitted block reject instead of crashing")

	// (4) divisors
	r.Divisions([]string{"vm/embedded/implementation.", "vm.", "vm/constants.", "consensus.", "chain/momentum."}, map[string]string{
		"consensus.(*compoundPoints).generatePointFromLower|big.NewInt((iter+1))": "numPresent counts the lower points merged; the division runs once per pillar of the merged point, which is empty unless at least one lower point was present",
		"consensus.(*points).InsertMomentum|recv.epochTickMultiplier":             "TickMultiplier of two tickers with epoch duration a positive multiple of the period (>= 1), fixed at construction",
		"consensus.NewConsensus|(constants.ConsensusConfig.BlockTime*conv:int64(constants.ConsensusConfig.NodeCount))": "positive consensus configuration constants",
		"consensus.newPoints|conv:int64(consensus.newPeriodPoints(a0,consensus.newChainTicker(a2,a0),a3).TickMultiplier(consensus.newCompoundPoints(consensus.newPeriodPoints(a0,consensus.newChainTicker(a2,a0),a3),consensus.newChainTicker(a2,a1),a3,1))#0)": "same multiplier, >= 1 or construction panics",
		"vm/embedded/implementation.computePillarRewardForEpoch|new(big.Int)":     "tmp holds ExceptedBlockNum at that point; the function returns early when ExceptedBlockNum == 0 (branch checked below)",
	}, "a zero divisor panics inside a contract receive")
	r.Branch("vm/embedded/implementation.computePillarRewardForEpoch", "eq(0,a0.Pillars[a1]#0.ExceptedBlockNum)", "premise of the triaged divisor: no expected blocks ⇒ early return")

	// (5) panic census
	reg := r.Region("PRODUCER", regionEntries["PRODUCER"], false)
	seen := map[string]bool{}
	for _, h := range r.panicInventory(reg) {
		if seen[h.Fn] {
			continue
		}
		seen[h.Fn] = true
		if reason, ok := producerPanicTriage[h.Fn]; ok {
			r.pass("K8-panic-census", h.Fn, "explicit panic on the producer path", "triaged: "+reason, "the producing pillar has no effective recover", h.File, h.Line)
		} else {
			chain := ""
			for f := range reg {
				if r.P.FuncName(f) == h.Fn {
					chain = strings.Join(r.P.Chain(reg, f), " → ")
				}
			}
			r.viol("K8-panic-census", h.Fn, "explicit panic on the producer path", fmt.Sprintf("%s (%s:%d) is an explicit panic reachable from Supervisor.GenerateAutoReceive without a recover barrier and is not triaged; reached via %s", h.What, h.File, h.Line, chain), "the producing pillar has no effective recover: a panic while generating a contract receive kills the process and leaves the call at the front of the inbox", h.File, h.Line)
		}
	}
	if len(seen) == 0 {
		r.viol("vacuous-rule", "", "panic census", "no panic found in the producer region", "", "", 0)
	}

	// (6) bound agreement and schedule lookups
	r.Has("vm/constants.init", "store constants.TokenMaxSupplyBig = common.BigP255m1", "the largest amount the token contract can emit as a descendant (max supply) is 2^255−1, which passes the verifier's BitLen ≤ 255 bound; a larger cap lets an accepted issue/mint produce a descendant the verifier refuses — no receive, no refund, inbox wedged")
	r.HasPrefix("common.init", "store common.BigP255m1 = new(big.Int).Sub(common.BigP255,big.NewInt(1))", "BigP255m1 = 2^255 − 1")
	r.HasPrefix("common.init", "store common.BigP255 = new(big.Int).Exp(common.Big2,common.Big255,nil)", "BigP255 = 2^255")
	r.Guards([]row{{F: "verifier.(*accountBlockVerifier).amounts", C: "lt(255,recv.block.Amount.BitLen()) @ T(recv.block.IsSendBlock())", Why: "the verifier's side of the bound"},
		{F: "vm/embedded/implementation.checkToken", C: "lt(constants.TokenMaxSupplyBig,a0.MaxSupply)", Why: "the token contract's side of the bound"}})
	for _, f := range []string{"Znn", "Qsr"} {
		fn := "vm/constants.Network" + f + "RewardPerEpoch"
		cfg := "constants.Network" + f + "RewardConfig"
		r.Branch(fn, "le(len("+cfg+"),conv:int((a0/constants.RewardTickDurationInEpochs)))", "the schedule index is clamped to the last entry: without it the update receive panics with an index out of range once the chain outlives the table")
		r.Returns(fn, []string{cfg + "[(len(" + cfg + ")-1)]", cfg + "[conv:int((a0/constants.RewardTickDurationInEpochs))]"}, "clamped lookup")
	}
	r.Exhaust = true
}
