package main

// C06 — reorganisation leaves no trace of the abandoned branch.
// Every cache or derived store names how it is invalidated: content-addressed key, validate-on-read
// guard, or purge-on-rewind in the rewind path.

func init() {
	register(&propDef{
		ID: "C06",
		Explain: "Each cache/derived store has a checked invalidation mechanism: ldbManager's undo-overlay caches are purged in Pop (purge-on-rewind); accountPool.managers is replaced on DeleteMomentum and rebuilt on InsertMomentum (under its mutex, re-adding through Manager.Add so the parent check applies, aborting on error); stored/cached consensus points are validated on read against the end block's hash (mismatch ⇒ delete + regenerate) in both GetPoint implementations, and merging cached points copies (no aliasing of LRU objects); election results are keyed by the proof momentum's hash (content-addressed) on read and write; " +
			"rewind path: RollbackTo checks the target is on the chain, pops one momentum per iteration and broadcasts DeleteMomentum to every listener after every successful Pop; Pop applies exactly the undo record of the frontier height and removes both records of that height; Add computes the undo record from the pre-state view before anything is written; the undo replayer restores both puts and deletes from the pre-state.",
		NotDec: "equality with a fresh node's full state on values; that listeners' own state (points' lastCompleted cursors) needs no rewind — they are pre-compute cursors and reads go through the validated GetPoint (reason recorded).",
		Run:    runC06,
		Controls: []control{
			{Name: "purge-removed", File: "common/db/versioned_db.go", Old: "\tm.l1Cache.Purge()\n\tm.l2Cache.Purge()\n", New: "", ExpectKeySub: "Purge"},
			{Name: "pool-not-reset", File: "chain/account_pool.go", Old: "\tap.managers = make(map[types.Address]db.Manager)\n}", New: "\t_ = ap.managers\n}", ExpectKeySub: "DeleteMomentum"},
			{Name: "point-not-validated", File: "consensus/points.go", Old: "\tdbPoint, err := compound.db.GetPointByHeight(compound.prefix, tick)\n\tif err != nil {\n\t\treturn nil, err\n\t}\n\tif dbPoint != nil {\n\t\tif dbPoint.EndHash != endBlock.Hash {", New: "\tdbPoint, err := compound.db.GetPointByHeight(compound.prefix, tick)\n\tif err != nil {\n\t\treturn nil, err\n\t}\n\tif dbPoint != nil {\n\t\tif dbPoint.EndHash.IsZero() {", ExpectKeySub: "compoundPoints).GetPoint"},
			{Name: "no-broadcast-after-pop", File: "chain/momentum_pool.go", Old: "\t\tc.changes.Unlock()\n\t\tc.broadcastDeleteMomentum(detailed)\n\t\tc.changes.Lock()\n", New: "\t\t_ = detailed\n", ExpectKeySub: "broadcastDeleteMomentum"},
			{Name: "undo-from-post-state", File: "common/db/versioned_db.go", Old: "\trollbackPatch := RollbackPatch(db, patch)\n", New: "\trollbackPatch := RollbackPatch(m.Frontier(), patch)\n", ExpectKeySub: "RollbackPatch"},
			{Name: "pop-wrong-undo-height", File: "common/db/versioned_db.go", Old: "rollbackPatch := m.getRollback(frontierIdentifier.Height)", New: "rollbackPatch := m.getRollback(frontierIdentifier.Height - 1)", ExpectKeySub: "getRollback"},
			{Name: "leftappend-aliases-cache", File: "consensus/storage/point.go", Old: "p.Pillars[k] = v.Copy()", New: "p.Pillars[k] = v", ExpectKeySub: "LeftAppend"},
			{Name: "delete-point-skips-cache", File: "consensus/storage/db.go", Old: "\tdb.pointCache[prefix].Remove(height)\n", New: "", ExpectKeySub: "DeletePointByHeight"},
		},
	})
}

func runC06(r *Run) {
	r.NoSharedBigIntInLoop([]string{"consensus"}, "decoded or computed per-element numbers (weights, amounts) must be separate objects")
	r.CacheInventory(cachePkgs, cacheTriage, "a result memoised from one ledger state (branch, height, view, block content) must never be served for another: every cache names its invalidation mechanism")
	pop, add := "common/db.(*ldbManager).Pop", "common/db.(*ldbManager).Add"
	r.Alias("$pf", "db.GetFrontierIdentifier(db.NewLevelDBSnapshotWrapper(recv.ldb.GetSnapshot()#0).Subset(db.frontierByte))")
	r.Alias("$batch", "new(leveldb.Batch)")
	r.Alias("$prev", "a0.GetCommits()[0].Previous()")

	// cache: undo overlays
	r.Always(pop, "recv.l1Cache.Purge()", "purge-on-rewind of the near-frontier undo-overlay cache")
	r.Always(pop, "recv.l2Cache.Purge()", "purge-on-rewind of the far undo-overlay cache")

	poolInvalidationRules(r)

	// cache: consensus points (validate-on-read)
	for fn, pre := range map[string]string{"consensus.(*compoundPoints).GetPoint": "recv.prefix", "consensus.(*periodPoints).GetPoint": "0"} {
		r.Alias("$dbp", "recv.db.GetPointByHeight("+pre+",a0)#0")
		r.Alias("$end", "recv.ChainTicker.GetEndBlock(a0)#0")
		r.Branch(fn, "ne($end.Hash,$dbp.EndHash)", "a stored/cached point is used only if it ends in the block that ends the tick on the current chain")
		r.ReturnOnlyUnder(fn, "$dbp, nil", "eq($end.Hash,$dbp.EndHash)", "a stored/cached point is handed out only after its end hash was compared with the block that ends the tick on the current chain — no path (fast path, finished-tick shortcut) returns it unvalidated")
		r.OnCondMustCall(fn, "ne($end.Hash,$dbp.EndHash)", "consensus/storage.(*DB).DeletePointByHeight", "a point of an abandoned branch is deleted")
		r.OnCondMustCall(fn, "ne($end.Hash,$dbp.EndHash)", "consensus.(*compoundPoints).generatePointFromLower|consensus.(*periodPoints).generatePointFromChain|consensus/storage.(*DB).DeletePointByHeight", "and regenerated")
		r.Guards([]row{{F: fn, C: "ne(nil,recv.db.DeletePointByHeight(" + pre + ",a0)) @ T(recv.ChainTicker.HasStarted(a0)) & ne(nil,$dbp) & ne($end.Hash,$dbp.EndHash)", Why: "a failed invalidation is an error, not a silent reuse"}})
	}
	r.Has("consensus/storage.(*DB).DeletePointByHeight", "recv.pointCache[a0].Remove(a1)", "invalidation removes the LRU entry as well as the stored record")
	r.Has("consensus/storage.(*DB).DeletePointByHeight", "recv.db.Delete(storage.CreatePointKey(a0,a1))", "invalidation removes the stored record under the key it was written with")
	r.Has("consensus/storage.(*DB).GetPointByHeight", "recv.db.Get(storage.CreatePointKey(a0,a1))", "reader key = writer key")
	r.HasPrefix("consensus/storage.(*DB).StorePointByHeight", "recv.db.Put(storage.CreatePointKey(a0,a1),", "writer key")
	r.Has("consensus/storage.(*Point).LeftAppend", "store recv.Pillars[next(range(a0.Pillars))#1] = next(range(a0.Pillars))#2.Copy()", "merging a cached lower point copies its entries: the LRU object of the lower tick is never aliased into (and mutated through) the upper point")
	r.Guards([]row{{F: "consensus/storage.(*Point).LeftAppend", C: "ne(a0.EndHash,recv.PrevHash)", Why: "points are merged only when they are adjacent on one chain"}})
	r.Has("consensus.(*compoundPoints).generatePointFromLower", "storage.NewEmptyPoint(a1.Hash)", "a regenerated point records the end block it was computed for")

	// cache: election results (content-addressed)
	gp := "consensus.(*electionManager).generateProducers"
	r.Has(gp, "recv.db.GetElectionResultByHash(a0.Hash)", "content-addressed read")
	r.HasPrefix(gp, "recv.db.StoreElectionResultByHash(a0.Hash,", "content-addressed write")

	// rewind path
	rt := "chain.(*momentumPool).RollbackTo"
	r.Guards([]row{
		{F: rt, C: "ne(a1.Hash,recv.getFrontierStore().GetMomentumByHeight(a1.Height)#0.Hash)", Pre: []string{".Pop"}, Why: "the rollback target must be a momentum of the node's own chain"},
		{F: rt, C: "ne(nil,recv.chainManager.Pop()) @ ne(a1.Height,recv.getFrontierStore().GetFrontierMomentum()#0.Height)", Why: "a failed pop stops the rewind"},
	})
	r.Branch(rt, "eq(a1.Height,recv.getFrontierStore().GetFrontierMomentum()#0.Height)", "the rewind stops exactly at the target height")
	r.OnSuccessMustCall(rt, ".Pop", "chain.(*momentumEventManager).broadcastDeleteMomentum", "every popped momentum is announced to every listener (pool, points, election, subscriptions)")
	r.Has(rt, "recv.momentumEventManager.broadcastDeleteMomentum(recv.getFrontierStore().PrefetchMomentum(recv.getFrontierStore().GetFrontierMomentum()#0)#0)", "the announced momentum is the one that was the frontier before the pop")
	r.Order(rt, ".PrefetchMomentum", ".Pop", "the popped momentum's content is fetched while it still exists")
	r.Has("chain.(*momentumEventManager).broadcastDeleteMomentum", "recv.listeners[iter].DeleteMomentum(a0)", "every registered listener is notified")
	r.Has("chain.(*momentumEventManager).broadcastInsertMomentum", "recv.listeners[iter].InsertMomentum(a0)", "every registered listener is notified")

	// undo machinery
	r.Has(pop, "db.ApplyPatch(db.newLevelDBBatchWrapper($batch).Subset(db.frontierByte),recv.getRollback($pf.Height))", "the undo record applied is the one of the frontier height")
	r.Has(pop, "$batch.Delete(common.JoinBytes(list(db.patchByte,common.Uint64ToBytes($pf.Height))))", "the redo record of the popped height is removed")
	r.Has(pop, "$batch.Delete(common.JoinBytes(list(db.rollbackByte,common.Uint64ToBytes($pf.Height))))", "the undo record of the popped height is removed")
	r.Has(add, "db.RollbackPatch(recv.Get($prev),a0.StealChanges())", "the undo record is computed against the view at the parent (the pre-state), for the patch that is committed")
	r.Order(add, "common/db.RollbackPatch", ldbDB+".Write", "the undo record is computed before anything is written")
	r.Has("common/db.(*patchRollback).rollback", "recv.rb.Put(a0,recv.db.Get(a0)#0)", "an overwritten/deleted key is undone by restoring its pre-state value")
	r.OnCondMustCall("common/db.(*patchRollback).rollback", "eq(leveldb.ErrNotFound,recv.db.Get(a0)#1)", ".Delete", "a created key is undone by a delete")
	r.Has("common/db.(*patchRollback).Put", "recv.rollback(a0)", "puts are undone")
	r.Has("common/db.(*patchRollback).Delete", "recv.rollback(a0)", "deletes are undone")
	r.Notes = append(r.Notes, "points.lastCompletedPeriod/lastCompletedEpoch are pre-compute cursors only; reads go through GetPoint, which validates the stored point against the current chain (rows above)")
}

// poolInvalidationRules: the unconfirmed pool is layered on the stable state; every rewound
// momentum drops all of it, every inserted momentum rebuilds it (shared by C06, C03, C14).
func poolInvalidationRules(r *Run) {
	r.Has("chain.(*accountPool).DeleteMomentum", "store recv.managers = make(map[types.Address]db.Manager)", "a rewound momentum invalidates every pool manager (they are layered on the stable state)")
	r.Order("chain.(*momentumPool).RollbackTo", ".Pop", "chain.(*momentumEventManager).broadcastDeleteMomentum", "listeners are told after the momentum is gone: a reader that reacts to the notification (or runs in the unlocked window) must not be able to rebuild pool state on top of the momentum about to be popped")
	r.MustCall("chain.(*accountPool).InsertMomentum", "chain.(*accountPool).rebuild", "after every inserted momentum the pool is rebuilt on the new stable state")
	rb := "chain.(*accountPool).rebuild"
	r.GuardLike(rb, "ne(db.NewMemDBManager(recv.stable.GetStableAccountDB(", "a block that no longer links to the new stable state aborts the rebuild of that account")
	r.HasPrefix(rb, "delete(recv.managers,", "the old manager is dropped before the new one is built")
	r.HasPrefix(rb, "store recv.managers[", "the rebuilt manager replaces it")

}
