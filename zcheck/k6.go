package main

import (
	"fmt"
	"go/types"
	"sort"
	"strings"

	"golang.org/x/tools/go/ssa"
)

// lockState computes, for every instruction of fn, whether the mutex at canonical path lockPath is
// definitely held (must analysis). entryHeld gives the state at function entry. Deferred unlocks
// keep the lock held until return. RLock counts as held for reads (flagged separately by callers).
func (p *Prog) lockState(fn *ssa.Function, lockPath string, entryHeld bool) map[ssa.Instruction]bool {
	return p.lockStateX(fn, lockPath, entryHeld, false)
}

// lockStateX: with exclusive set, only Lock (not RLock) counts as acquiring.
func (p *Prog) lockStateX(fn *ssa.Function, lockPath string, entryHeld bool, exclusive bool) map[ssa.Instruction]bool {
	env := p.Env(fn)
	kind := func(in ssa.Instruction) int { // 1 lock, 2 unlock, 0 other
		c, ok := in.(*ssa.Call)
		if !ok {
			return 0
		}
		f := c.Call.StaticCallee()
		if f == nil || f.Signature.Recv() == nil || len(c.Call.Args) == 0 {
			return 0
		}
		full := f.String()
		if !strings.HasPrefix(full, "(*sync.Mutex).") && !strings.HasPrefix(full, "(*sync.RWMutex).") {
			return 0
		}
		if env.of(c.Call.Args[0]).String() != lockPath {
			return 0
		}
		switch f.Name() {
		case "Lock":
			return 1
		case "RLock":
			if exclusive {
				return 0
			}
			return 1
		case "Unlock", "RUnlock":
			return 2
		}
		return 0
	}
	in := map[*ssa.BasicBlock]bool{}
	out := map[*ssa.BasicBlock]bool{}
	visited := map[*ssa.BasicBlock]bool{}
	state := map[ssa.Instruction]bool{}
	if len(fn.Blocks) == 0 {
		return state
	}
	// optimistic initialisation for must-analysis: unknown blocks are "held" until proven otherwise
	for _, b := range fn.Blocks {
		in[b], out[b] = true, true
	}
	in[fn.Blocks[0]] = entryHeld
	changed := true
	for iter := 0; changed && iter < 50; iter++ {
		changed = false
		for _, b := range fn.Blocks {
			st := true
			if b == fn.Blocks[0] {
				st = entryHeld
			} else {
				if len(b.Preds) == 0 {
					st = false // recover block etc.
				}
				for _, pr := range b.Preds {
					if !out[pr] {
						st = false
					}
				}
			}
			in[b] = st
			for _, ins := range b.Instrs {
				switch kind(ins) {
				case 1:
					st = true
				case 2:
					st = false
				}
				state[ins] = st
			}
			if out[b] != st || !visited[b] {
				changed = true
			}
			out[b] = st
			visited[b] = true
		}
	}
	return state
}

// protectedAccesses lists loads/stores of the given fields of the receiver struct in fn.
func protectedAccesses(fn *ssa.Function, st *types.Named, fields map[string]bool) []ssa.Instruction {
	var out []ssa.Instruction
	for _, b := range fn.Blocks {
		for _, in := range b.Instrs {
			fa, ok := in.(*ssa.FieldAddr)
			if !ok {
				continue
			}
			pt, ok := fa.X.Type().Underlying().(*types.Pointer)
			if !ok || !types.Identical(pt.Elem(), st) {
				continue
			}
			if !fields[fieldName(fa.X.Type(), fa.Field)] {
				continue
			}
			// the access happens where the address is used
			for _, ref := range *fa.Referrers() {
				out = append(out, ref)
			}
		}
	}
	return out
}

// Lockset: every access to the protected fields of pkg.typ, in every method of the type, happens
// while recv.<mutex> is held. helpers: unexported methods that run with the lock held by their
// callers (verified: every static call site inside the type's methods is in held state).
// exceptions: "<method>" → reason (one symbol wide).
func (r *Run) Lockset(pkg, typ, mutex string, fieldList []string, helpers []string, exceptions map[string]string, why string) {
	nt := r.namedType(pkg, typ)
	if nt == nil {
		r.viol("unresolved-anchor", "", "type "+pkg+"."+typ, "type not found", why, "", 0)
		return
	}
	fields := map[string]bool{}
	for _, f := range fieldList {
		fields[f] = true
	}
	lockPath := "recv." + mutex
	// a method that is new relative to the reviewed tree and never takes the lock itself is treated
	// as a helper of its callers (an extracted piece of a critical section): its premise — every
	// call site holds the lock — is verified like for the listed helpers
	if knownFuncs != nil {
		for _, name := range r.P.FuncNames() {
			if strings.HasPrefix(name, pkg+".(*"+typ+").") && !strings.Contains(name, "$") && !knownFuncs[name] {
				f := r.P.Fn(name)
				takes := false
				for _, cs := range r.P.Calls(f, false) {
					if strings.HasPrefix(cs.Callee, "(*sync.") && (cs.Method == "Lock" || cs.Method == "RLock") {
						takes = true
					}
				}
				if !takes {
					helpers = append(helpers, f.Name())
				}
			}
		}
	}
	isHelper := map[string]bool{}
	for _, h := range helpers {
		isHelper[h] = true
	}
	var methods []*ssa.Function
	for _, name := range r.P.FuncNames() {
		if strings.HasPrefix(name, pkg+".(*"+typ+").") && !strings.Contains(name, "$") {
			if f := r.P.Fn(name); f != nil && f.Blocks != nil {
				methods = append(methods, f)
			}
		}
	}
	sort.Slice(methods, func(i, j int) bool { return methods[i].Name() < methods[j].Name() })
	if len(methods) == 0 {
		r.viol("vacuous-rule", "", "lockset "+typ, "no methods found", why, "", 0)
		return
	}
	// verify helper premise: all call sites of a helper inside the type's methods are in held state
	states := map[*ssa.Function]map[ssa.Instruction]bool{}
	stateOf := func(f *ssa.Function) map[ssa.Instruction]bool {
		if s, ok := states[f]; ok {
			return s
		}
		s := r.P.lockState(f, lockPath, isHelper[f.Name()])
		states[f] = s
		return s
	}
	for _, h := range helpers {
		hName := fmt.Sprintf("%s.(*%s).%s", pkg, typ, h)
		hf := r.fn(hName)
		if hf == nil {
			continue
		}
		n := 0
		okAll := true
		for _, m := range methods {
			for _, cs := range r.P.FindCalls(m, hName, true) {
				n++
				held := stateOf(cs.Fn)[cs.Instr.(ssa.Instruction)]
				if cs.Fn != m {
					held = false // call from a closure: not tracked
				}
				if !held {
					okAll = false
					r.viol("K6-lockset", r.P.FuncName(m), "calls helper "+h+" with "+mutex+" held", fmt.Sprintf("%s is called at %s:%d without %s.%s held, but it accesses protected fields assuming the caller holds the lock", hName, cs.File, cs.Line, typ, mutex), why, cs.File, cs.Line)
				}
			}
		}
		// callers outside the type (CHA)
		if okAll {
			file, line := r.P.FnPos(hf)
			r.pass("K6-lockset", hName, "helper runs under caller's lock", fmt.Sprintf("%d call site(s), all with the lock held", n), why, file, line)
		}
	}
	total := 0
	for _, m := range methods {
		name := r.P.FuncName(m)
		acc := protectedAccesses(m, nt, fields)
		if len(acc) == 0 {
			continue
		}
		if reason, ok := exceptions[m.Name()]; ok {
			file, line := r.P.FnPos(m)
			r.pass("K6-lockset", name, "exception", "unlocked access accepted: "+reason, why, file, line)
			continue
		}
		st := stateOf(m)
		bad := false
		for _, a := range acc {
			total++
			if !st[a] {
				f2, l2 := r.P.Pos(a.Pos())
				if f2 == "" {
					f2, l2 = r.P.FnPos(m)
				}
				r.viol("K6-lockset", name, "fields of "+typ+" under "+mutex, fmt.Sprintf("%s accesses a field protected by %s.%s at %s:%d while the lock is not (definitely) held", name, typ, mutex, f2, l2), why, f2, l2)
				bad = true
				break
			}
		}
		if !bad {
			file, line := r.P.FnPos(m)
			r.pass("K6-lockset", name, "fields of "+typ+" under "+mutex, fmt.Sprintf("%d protected access(es), all with the lock held", len(acc)), why, file, line)
		}
	}
	// closures of the methods that touch the fields are not tracked: flag them
	for _, m := range methods {
		for _, an := range m.AnonFuncs {
			if len(protectedAccesses(an, nt, fields)) > 0 {
				file, line := r.P.FnPos(an)
				r.viol("K6-lockset", r.P.FuncName(an), "fields of "+typ+" under "+mutex, "a closure accesses protected fields; lock state inside closures is not tracked — restructure or add an exception row", why, file, line)
			}
		}
	}
	if total == 0 {
		r.viol("vacuous-rule", "", "lockset "+typ, "no protected access found", why, "", 0)
	}
	// write mode: a store into a protected field, or an update/delete of a protected map, needs the
	// exclusive lock — a read lock (RWMutex.RLock) admits concurrent holders
	isWrite := func(a ssa.Instruction) bool {
		switch x := a.(type) {
		case *ssa.Store:
			if _, ok := x.Addr.(*ssa.FieldAddr); ok {
				return true
			}
		case *ssa.UnOp:
			for _, ref := range *x.Referrers() {
				switch y := ref.(type) {
				case *ssa.MapUpdate:
					if y.Map == ssa.Value(x) {
						return true
					}
				case *ssa.Call:
					if b, ok := y.Call.Value.(*ssa.Builtin); ok && b.Name() == "delete" && len(y.Call.Args) > 0 && y.Call.Args[0] == ssa.Value(x) {
						return true
					}
				}
			}
		}
		return false
	}
	byName := map[string]*ssa.Function{}
	for _, m := range methods {
		byName[m.Name()] = m
	}
	writes := map[string]bool{} // methods that write protected state directly or through a helper
	for _, m := range methods {
		for _, a := range protectedAccesses(m, nt, fields) {
			if isWrite(a) {
				writes[m.Name()] = true
			}
		}
	}
	for changed := true; changed; {
		changed = false
		for _, m := range methods {
			if writes[m.Name()] {
				continue
			}
			for _, h := range helpers {
				if writes[h] && len(r.P.FindCalls(m, fmt.Sprintf("%s.(*%s).%s", pkg, typ, h), false)) > 0 {
					writes[m.Name()] = true
					changed = true
				}
			}
		}
	}
	xstates := map[*ssa.Function]map[ssa.Instruction]bool{}
	xstate := func(f *ssa.Function) map[ssa.Instruction]bool {
		if s, ok := xstates[f]; ok {
			return s
		}
		s := r.P.lockStateX(f, lockPath, isHelper[f.Name()], true)
		xstates[f] = s
		return s
	}
	for _, m := range methods {
		if !writes[m.Name()] {
			continue
		}
		if _, ok := exceptions[m.Name()]; ok {
			continue
		}
		name := r.P.FuncName(m)
		st := xstate(m)
		bad := false
		check := func(in ssa.Instruction, what string) {
			if bad || st[in] {
				return
			}
			f2, l2 := r.P.Pos(in.Pos())
			if f2 == "" {
				f2, l2 = r.P.FnPos(m)
			}
			r.viol("K6-lockset", name, "writes to "+typ+" under exclusive "+mutex, fmt.Sprintf("%s %s at %s:%d while %s.%s is not held exclusively (a read lock admits other holders): concurrent map writes / lost updates", name, what, f2, l2, typ, mutex), why, f2, l2)
			bad = true
		}
		for _, a := range protectedAccesses(m, nt, fields) {
			if isWrite(a) {
				check(a, "writes a protected field")
			}
		}
		for _, h := range helpers {
			if !writes[h] {
				continue
			}
			for _, cs := range r.P.FindCalls(m, fmt.Sprintf("%s.(*%s).%s", pkg, typ, h), false) {
				check(cs.Instr.(ssa.Instruction), "calls "+h+" (which writes protected state)")
			}
		}
		if !bad {
			file, line := r.P.FnPos(m)
			r.pass("K6-lockset", name, "writes to "+typ+" under exclusive "+mutex, "", why, file, line)
		}
	}
}

// LockWindows: the methods of pkg.typ (and the listed helpers) release recv.<mutex> in the middle of
// a critical section (an explicit Unlock from which a Lock of the same mutex is reachable) only if
// listed in allowed ("Method" → reason). Such a window breaks check-then-act atomicity.
func (r *Run) LockWindows(pkg, typ, mutex string, allowed map[string]string, why string) {
	lockPath := "recv." + mutex
	n := 0
	for _, name := range r.P.FuncNames() {
		if !strings.HasPrefix(name, pkg+".(*"+typ+").") || strings.Contains(name, "$") {
			continue
		}
		fn := r.P.Fn(name)
		if fn.Blocks == nil {
			continue
		}
		n++
		env := r.P.Env(fn)
		isOp := func(in ssa.Instruction, op string) bool {
			c, ok := in.(*ssa.Call)
			if !ok {
				return false
			}
			f := c.Call.StaticCallee()
			if f == nil || len(c.Call.Args) == 0 || !(strings.HasPrefix(f.String(), "(*sync.Mutex).") || strings.HasPrefix(f.String(), "(*sync.RWMutex).")) {
				return false
			}
			return f.Name() == op && env.of(c.Call.Args[0]).String() == lockPath
		}
		var window ssa.Instruction
		for _, b := range fn.Blocks {
			for i, in := range b.Instrs {
				if !isOp(in, "Unlock") {
					continue
				}
				// a Lock reachable afterwards?
				found := false
				for _, later := range b.Instrs[i+1:] {
					if isOp(later, "Lock") {
						found = true
					}
				}
				seen := map[*ssa.BasicBlock]bool{}
				work := append([]*ssa.BasicBlock(nil), b.Succs...)
				for len(work) > 0 && !found {
					x := work[len(work)-1]
					work = work[:len(work)-1]
					if seen[x] {
						continue
					}
					seen[x] = true
					for _, in2 := range x.Instrs {
						if isOp(in2, "Lock") {
							found = true
						}
					}
					work = append(work, x.Succs...)
				}
				if found {
					window = in
				}
			}
		}
		file, line := r.P.FnPos(fn)
		if window == nil {
			continue
		}
		file, line = r.P.Pos(window.Pos())
		if reason, ok := allowed[fn.Name()]; ok {
			r.pass("K6-lock-window", name, "unlock–relock window", "deliberate: "+reason, why, file, line)
		} else {
			r.viol("K6-lock-window", name, "unlock–relock window", fmt.Sprintf("%s releases %s.%s at %s:%d and takes it again later: another goroutine can change the protected state between the check made before and the update made after", name, typ, mutex, file, line), why, file, line)
		}
	}
	if n == 0 {
		r.viol("vacuous-rule", "", "lock windows "+typ, "no methods found", why, "", 0)
	}
}
