package main

// ccrTriage: every source of node-dependence found by the K9 inventory inside the
// consensus-critical region, triaged by reading. Map loops carry the hazard signature of their body
// ([exit append sorted]); a change of signature is reported. Classes: (a) writes keyed by the loop
// key / per-key calls; (b) commutative accumulation; (c) appended then sorted before use; (d)
// selection by equality on a unique key; (e) debug only; (f) node-local cache record rebuilt into a map.
var ccrTriage = map[string]string{
	"verifier.(*rawMomentumVerifier).timestamp|clock:time.Now":                                                                            "the 'not in the future' rule the property itself states; only widens rejection by local clock, never acceptance of different content",
	"chain.(*accountPool).GetAllUncommittedAccountBlocks|map-range:recv.managers":                                                         "[exit=0 append=1 sorted=0] class (c): consumers (newGenesisMomentum, pillar.generateMomentum) pass the slice to NewMomentumContent, which sorts before it enters a hash; filterBlocksToCommit depends only on order within one address's run, which the body preserves",
	"chain/genesis.genesisPlasmaContractConfig|map-range:make(map[types.Address]*big.Int)":                                                "[exit=0 append=0 sorted=0] class (a): one storage write per beneficiary key",
	"chain/genesis.wrap|map-range:a0.GenesisBlocks.Blocks[iter].BalanceList":                                                          "[exit=0 append=0 sorted=0] class (a): SetBalance per token key",
	"chain/momentum.(*momentumStore).ComputePillarDelegations|map-range:next(range(recv.computeBackers(recv.getAllDelegations()#0)#0))#2": "[exit=0 append=0 sorted=0] class (b): sums backer weights into the pillar weight",
	"chain/momentum.(*momentumStore).ComputePillarDelegations|map-range:recv.computeBackers(recv.getAllDelegations()#0)#0":                "[exit=0 append=0 sorted=1] class (a): fills per-pillar details by name; the result list is built from the ordered pillar list, not from this loop",
	"common/types.(*PillarDelegationDetail).Merge|map-range:a0.Backers":                                                                   "[exit=0 append=0 sorted=0] class (a)/(b): per-address accumulation",
	"common/types.(*PillarDelegationDetail).Reduce|map-range:recv.Backers":                                                                "[exit=0 append=0 sorted=0] class (a): per-address division",
	"consensus.(*API).EpochStats|map-range:recv.points.GetEpochPoints().GetPoint(a0)#0.Pillars":                                           "[exit=0 append=0 sorted=0] class (a): copies into a map by name",
	"consensus.(*API).GetPillarDelegationsByEpoch|map-range:make(map[string]*types.PillarDelegationDetail)":                               "[exit=0 append=0 sorted=0] class (a): per-name Reduce",
	"consensus.(*compoundPoints).generatePointFromLower|map-range:storage.NewEmptyPoint(a1.Hash).Pillars":                                 "[exit=0 append=0 sorted=0] class (a): per-name division of the weight",
	"consensus/storage.(*Point).LeftAppend|map-range:a0.Pillars":                                                                          "[exit=0 append=0 sorted=0] class (a): merge by name",
	"consensus/storage.(*Point).Marshal|map-range:recv.Pillars":                                                                           "[exit=0 append=1 sorted=0] class (f): node-local cache record; Unmarshal rebuilds a map by name, the order never leaves the node nor enters a hash",
	"vm/abi.(*ABIContract).MethodById|map-range:recv.Methods":                                                                             "[exit=1 append=0 sorted=0] class (d): selects by equality on the 4-byte id, unique per ABI",
	"vm/embedded/implementation.computeDetailedPillarReward|map-range:a0.GetPillarDelegationsByEpoch(a1)#0":                               "[exit=1 append=0 sorted=1] class (a): addReward per backer key; the early exit is an error return",
	"vm/embedded/implementation.computeDetailedPillarReward|map-range:make(map[types.Address]*big.Int)":                                   "[exit=0 append=1 sorted=1] class (c)/(e): keys appended then sort.Strings; debug output only",
	"vm/embedded/implementation.computeDetailedPillarReward|map-range:next(range(a0.GetPillarDelegationsByEpoch(a1)#0))#2.Backers":        "[exit=0 append=0 sorted=0] or [exit=0 append=0 sorted=1] class (a)/(b): two loops over one pillar's backers — the sum of backer amounts and the per-backer share (addReward keyed by backer)",
	"vm/embedded/implementation.computePillarRewardForEpoch|map-range:a0.Pillars":                                                         "[exit=0 append=0 sorted=0] class (b): sums expected block counts",
	"vm/embedded/implementation.computePillarsRewardForEpoch|map-range:a0.EpochStats(a1)#0.Pillars":                                       "[exit=0 append=1 sorted=1] class (c): names appended then sort.Strings before use",
}

// cachePkgs / cacheTriage: every map / LRU / sync.Map held in a struct field or package variable of
// the ledger-side packages, with the mechanism that keeps it consistent with the ledger. A new entry
// (a new cache) is reported until it is triaged here with its invalidation mechanism.
var cachePkgs = []string{"common/db", "chain", "chain/momentum", "chain/account", "verifier", "vm", "vm/vm_context", "vm/embedded", "vm/embedded/implementation", "vm/embedded/definition", "consensus", "consensus/storage", "pillar", "protocol"}

var cacheTriage = map[string]string{
	"chain.accountPool.managers":                 "purge-on-rewind + rebuild-on-insert (C06 rows on DeleteMomentum/InsertMomentum/rebuild), under accountPool.changes (C14 lockset)",
	"common/db.ldbManager.l1Cache":               "purge-on-rewind: Pop purges under the lock (C06/C07 rows)",
	"common/db.ldbManager.l2Cache":               "purge-on-rewind: Pop purges under the lock (C06/C07 rows)",
	"common/db.memdbManager.patches":             "per-version records of one pool manager; the manager is discarded wholesale on rewind/rebuild",
	"common/db.memdbManager.previous":            "per-version parent links of one pool manager; same lifetime",
	"common/db.memdbManager.versions":            "per-version views of one pool manager; same lifetime",
	"consensus/storage.DB.electionCache":         "content-addressed: keyed by the proof momentum's hash on read and write (C06 rows)",
	"consensus/storage.DB.pointCache":            "validate-on-read: GetPoint compares EndHash with the current chain, mismatch ⇒ DeletePointByHeight removes the LRU entry too (C06 rows)",
	"consensus/storage.Point.Pillars":            "data record (content of one point), copied on merge (C06 LeftAppend row)",
	"protocol.errorToString":                     "constant table",
	"protocol.peer.knownBlocks":                  "per-peer gossip de-duplication by hash; not ledger-derived, never consulted for validity",
	"protocol.peer.knownTxs":                     "per-peer gossip de-duplication by hash; not ledger-derived, never consulted for validity",
	"protocol.peerSet.peers":                     "connection registry; not ledger-derived",
	"vm/embedded.acceleratorEmbedded":            "dispatch table written only at package init (C17 who-may-write)",
	"vm/embedded.bridgeAndLiquidityEmbedded":     "dispatch table written only at package init (C17 who-may-write)",
	"vm/embedded.embeddedImplementation.m":       "dispatch table written only at package init (C17 who-may-write)",
	"vm/embedded.htlcEmbedded":                   "dispatch table written only at package init (C17 who-may-write)",
	"vm/embedded.originEmbedded":                 "dispatch table written only at package init (C17 who-may-write)",
	"vm/embedded/definition.HashTypeDigestSizes": "constant table",
}
