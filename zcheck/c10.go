package main

import "strings"

// C10 — locked funds are fully backed and released only to the entitled party, on time.

const implDir = "vm/embedded/implementation/"

func init() {
	register(&propDef{
		ID: "C10",
		Explain: "Structural necessary conditions, as a withdrawal/deposit table over the contract methods that accept, hold or pay out locked funds (stake, plasma, htlc, pillar, sentinel, common deposit/withdraw, liquidity stake, bridge wrap/unwrap/redeem, swap): (1) every rejection these methods perform today (time locks, entitlement — owner/looked up under the caller's address, preimage and size checks, replay/redeemed/revoked flags, token and minimum-amount checks, signature checks) is present in normal form (frozen table of 595 guards generated from the reviewed tree; a deleted, weakened, operand-swapped or exempted check is reported); " +
			"(2) every record/consume/pay effect is present in normal form (frozen table of record stores, Save/Delete, balance moves, descendant-block fields: e.g. the paid amount is the entry's amount, the recipient the entry's owner, the consumed entry is deleted or zeroed-and-saved); (3) pay ⇒ consume on every success path for the ten withdrawal methods, and the entry's amount is read before it is zeroed; (4) reader/writer key agreement for the bridge's unwrap requests (replay check and storage use the same key constructor and fields).",
		NotDec: "Σ liabilities ≤ balance per contract at every momentum (a sum over storage); numeric correctness of weights and fees; D19 (a cancelled stake can be cancelled again until the epoch update deletes it: pays zero, so 'never twice' holds) is a recorded observation, not armed.",
		Run:    runC10,
		Controls: []control{
			{Name: "fuse-token-or-to-and", File: implDir + "plasma.go", Old: "if block.TokenStandard != types.QsrTokenStandard || block.Amount.Cmp(constants.FuseMinAmount) < 0 {", New: "if block.TokenStandard != types.QsrTokenStandard && block.Amount.Cmp(constants.FuseMinAmount) < 0 {", ExpectKeySub: "FuseMethod"},
			{Name: "unwrap-replay-wrong-key", File: implDir + "bridge.go", Old: "request, err := definition.GetUnwrapTokenRequestByTxHashAndLog(context.Storage(), param.TransactionHash, param.LogIndex)\n\tif err == nil {", New: "request, err := definition.GetUnwrapTokenRequestByTxHashAndLog(context.Storage(), param.TransactionHash, param.ChainId)\n\tif err == nil {", ExpectKeySub: "UnwrapTokenMethod"},
			{Name: "htlc-reclaim-early", File: implDir + "htlc.go", Old: "if momentum.Timestamp.Unix() < htlcInfo.ExpirationTime {\n\t\thtlcLog.Debug(\"invalid reclaim - entry not expired\"", New: "if momentum.Timestamp.Unix() < htlcInfo.ExpirationTime-3600 {\n\t\thtlcLog.Debug(\"invalid reclaim - entry not expired\"", ExpectKeySub: "ReclaimHtlcMethod"},
			{Name: "cancel-stake-zero-before-read", File: implDir + "stake.go", Old: "\tamount := stakeInfo.Amount\n\tstakeInfo.RevokeTime = momentum.Timestamp.Unix()\n\t// signal that the amount has been received, to future-proof\n\tstakeInfo.Amount = common.Big0\n", New: "\tstakeInfo.RevokeTime = momentum.Timestamp.Unix()\n\t// signal that the amount has been received, to future-proof\n\tstakeInfo.Amount = common.Big0\n\tamount := stakeInfo.Amount\n", ExpectKeySub: "load-before-store"},
			{Name: "htlc-unlock-not-deleted", File: implDir + "htlc.go", Old: "\tcommon.DealWithErr(htlcInfo.Delete(context.Storage()))\n\thtlcLog.Debug(\"unlocked\"", New: "\thtlcLog.Debug(\"unlocked\"", ExpectKeySub: "UnlockHtlcMethod"},
			{Name: "withdraw-to-sender-of-call", File: implDir + "htlc.go", Old: "\t\t\tToAddress:     htlcInfo.HashLocked,", New: "\t\t\tToAddress:     sendBlock.Address,", ExpectKeySub: "UnlockHtlcMethod"},
			{Name: "redeem-flag-not-set", File: implDir + "bridge.go", Old: "\trequest.Redeemed = 1\n", New: "", ExpectKeySub: "RedeemMethod"},
		},
	})
}

func runC10(r *Run) {
	const I = "vm/embedded/implementation."
	r.PureShapes([]string{I + "PillarGetRevokeStatus", I + "GetSentinelRevokeStatus", I + "TimeChallenge", I + "GetHtlcProxyUnlockStatus", I + "ApplyDecay", I + "GetQsrCostForNextPillar"},
		"the lock/revoke windows, challenge delays, decay and deposit cost are computed by these helpers (shared with the RPC): a changed modulus or operand releases funds earlier than the lock allows or asks a different deposit")
	// what a contract pays out is what the node itself computes: a delivered contract-receive (and each of its descendant payouts) is compared with the locally generated one
	r.Guards([]row{
		{F: "vm.(*VM).applyBlock", C: "ne(a0.ChangesHash,recv.generateEmbeddedReceive(a0.FromBlockHash)#0.ChangesHash) @ ne(2,a0.BlockType) & ne(3,a0.BlockType) & ne(4,a0.BlockType)", Why: "a delivered contract receive must have the state effect the node computes itself"},
		{F: "vm.(*VM).applyBlock", C: "ne(a0.Hash,recv.generateEmbeddedReceive(a0.FromBlockHash)#0.ComputeHash()) @ ne(2,a0.BlockType) & ne(3,a0.BlockType) & ne(4,a0.BlockType)", Why: "and the hash (covering descendant recipients and amounts through their hashes) of the block the node generates itself — not of the delivered block"},
	})
	descendantHashBinding(r)
	c10Files := fileIn(implDir+"stake.go", implDir+"plasma.go", implDir+"htlc.go", implDir+"pillars.go", implDir+"sentinel.go", implDir+"common.go", implDir+"liquidity.go", implDir+"bridge.go", implDir+"swap.go")
	ng := r.GuardTable(c10Files, "a rejection performed by a contract method that accepts, holds or pays out locked funds: it decides who may release what and when; removing or weakening it releases funds to the wrong party, too early, or twice")
	ne := r.EffectTable(c10Files, "a record/consume/pay effect of a contract method that accepts, holds or pays out locked funds: what is recorded at deposit, what is consumed and what is paid to whom at withdrawal")
	r.Notes = append(r.Notes, "frozen contract tables: guards="+itoa(ng)+" effects="+itoa(ne)+" (generated by zcheck -gentable from the reviewed tree)")

	// (3) pay ⇒ consume on every success path
	// I declared at the top
	consume := map[string]string{
		I + "(*CancelStakeMethod).ReceiveBlock":          "definition.GetStakeInfo(a0.Storage(),new(types.Hash),a1.Address)#0.Save(a0.Storage())",
		I + "(*CancelLiquidityStakeMethod).ReceiveBlock": "definition.GetLiquidityStakeEntry(a0.Storage(),new(types.Hash),a1.Address)#0.Save(a0.Storage())",
		I + "(*CancelFuseMethod).ReceiveBlock":           "definition.GetFusionInfo(a0.Storage(),a1.Address,new(types.Hash))#0.Delete(a0.Storage())",
		I + "(*ReclaimHtlcMethod).ReceiveBlock":          "definition.GetHtlcInfo(a0.Storage(),new(types.Hash))#0.Delete(a0.Storage())",
		I + "(*UnlockHtlcMethod).ReceiveBlock":           "definition.GetHtlcInfo(a0.Storage(),new(definition.UnlockHtlcParam).Id)#0.Delete(a0.Storage())",
		I + "(*RevokeMethod).ReceiveBlock":               "definition.GetPillarInfo(a0.Storage(),new(string))#0.Save(a0.Storage())",
		I + "(*RevokeSentinelMethod).ReceiveBlock":       "definition.GetSentinelInfoByOwner(a0.Storage(),a1.Address).Save(a0.Storage())",
		I + "(*WithdrawQsrMethod).ReceiveBlock":          "definition.GetQsrDeposit(a0.Storage(),a1.Address)#0.Delete(a0.Storage())",
		I + "(*RedeemMethod).ReceiveBlock":               "definition.GetUnwrapTokenRequestByTxHashAndLog(a0.Storage(),new(definition.RedeemParam).TransactionHash,new(definition.RedeemParam).LogIndex)#0.Save(a0.Storage())",
		I + "(*SwapRetrieveAssetsMethod).ReceiveBlock":   "definition.GetSwapAssetsByKeyIdHash(a0.Storage(),implementation.PubKeyToKeyIdHash(base64.StdEncoding.DecodeString(new(definition.ParamRetrieveAssets).PublicKey)#0))#0.Save(a0.Storage())",
	}
	for fn, eff := range consume {
		r.Always(fn, eff, "pay ⇒ consume: every path that returns a paying descendant also deletes the entry or saves it in its consumed form, so it can never be paid twice")
	}
	// the amount is read before it is zeroed
	r.NoLoadAfterStore(I+"(*CancelStakeMethod).ReceiveBlock", "definition.GetStakeInfo(a0.Storage(),new(types.Hash),a1.Address)#0.Amount", "the paid amount is the entry's amount before it is zeroed")
	r.NoLoadAfterStore(I+"(*CancelLiquidityStakeMethod).ReceiveBlock", "definition.GetLiquidityStakeEntry(a0.Storage(),new(types.Hash),a1.Address)#0.Amount", "the paid amount is the entry's amount before it is zeroed")

	// (4) unwrap request keys
	r.Has("vm/embedded/definition.GetUnwrapTokenRequestByTxHashAndLog", "a0.Get(definition.getUnwrapTokenRequestKey(a1,a2))", "requests are looked up under key(txHash, logIndex)")
	r.Returns("vm/embedded/definition.(*UnwrapTokenRequest).Key", []string{"definition.getUnwrapTokenRequestKey(recv.TransactionHash,recv.LogIndex)"}, "requests are stored under key(txHash, logIndex) — the same constructor and fields as the lookups, so the replay/redeem checks find what was stored")
	r.HasPrefix("vm/embedded/definition.(*UnwrapTokenRequest).Save", "a0.Put(recv.Key(),", "stored under its own key")
	_ = strings.TrimSpace
}

func itoa(n int) string {
	if n == 0 {
		return "0"
	}
	s := ""
	for n > 0 {
		s = string(rune('0'+n%10)) + s
		n /= 10
	}
	return s
}
