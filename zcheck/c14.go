package main

// C14 — unconfirmed pool: one consistent chain per account, safe under concurrency.

func init() {
	register(&propDef{
		ID: "C14",
		Explain: "Structural necessary conditions: (1) K6 lockset: accountPool.managers is accessed only under accountPool.changes (unexported helpers inherit the lock from all their call sites), momentumPool calls its chain manager only under momentumPool.changes, listeners are invoked under momentumEventManager.changes; no method or helper releases its mutex in the middle of a critical section except the two deliberate unlock–broadcast–relock windows of AddMomentumTransaction/RollbackTo; " +
			"(2) K4+K2 insert-lock typestate: AddAccountBlockTransaction/ForceAdd…/AddMomentumTransaction/RollbackTo refuse a nil locker; (3) K3+K10 fork choice: higherPriority rejects a lower plasma ratio (cross-multiplied, mirror-image products) and, on equal ratio, a not-smaller hash — the two products are mirror images under a↔b, so the relation is antisymmetric for distinct hashes; replacement happens only after canRollback (never at or below the stable height, previous must match) and higherPriority unless forced; the pop loop stops exactly at the new block's previous; the in-memory manager refuses to pop the stable state (C07 row); " +
			"(4) K3 momentum content: a batch is flushed only on a non-ContractSend block and only while toCommit+batch ≤ MaxAccountBlocksInMomentum; (5) K2 the pool follows the chain: InsertMomentum always rebuilds, DeleteMomentum replaces the whole map, rebuild re-adds through Manager.Add and aborts on error.",
		NotDec: "freedom from data races in general and what concurrent readers observe (needs the race detector / a memory-model analysis that is not available here); the numeric fork-choice outcome on values.",
		Run:    runC14,
		Controls: []control{
			{Name: "tie-break-wrong-operand", File: "chain/account_pool.go", Old: "} else if a.TotalPlasma*b.BasePlasma == b.TotalPlasma*a.BasePlasma && bytes.Compare", New: "} else if a.TotalPlasma*b.BasePlasma == b.TotalPlasma*b.BasePlasma && bytes.Compare", ExpectKeySub: "higherPriority"},
			{Name: "helper-releases-lock", File: "chain/account_pool.go", Old: "\t\tmanager = db.NewMemDBManager(ap.stable.GetStableAccountDB(address))\n", New: "\t\tap.changes.Unlock()\n\t\tstable := ap.stable.GetStableAccountDB(address)\n\t\tap.changes.Lock()\n\t\tmanager = db.NewMemDBManager(stable)\n", ExpectKeySub: "K6-lock-window"},
			{Name: "getpatch-unlocked", File: "chain/account_pool.go", Old: "func (ap *accountPool) GetPatch(address types.Address, identifier types.HashHeight) db.Patch {\n\tap.changes.Lock()\n\tdefer ap.changes.Unlock()\n", New: "func (ap *accountPool) GetPatch(address types.Address, identifier types.HashHeight) db.Patch {\n", ExpectKeySub: "K6-lockset"},
			{Name: "stable-height-replaceable", File: "chain/account_pool.go", Old: "if stableIdentifier.Height >= identifier.Height {", New: "if stableIdentifier.Height > identifier.Height {", ExpectKeySub: "canRollback"},
			{Name: "limit-off-by-batch", File: "chain/account_pool.go", Old: "if len(toCommit)+len(batch) > MaxAccountBlocksInMomentum {", New: "if len(toCommit) > MaxAccountBlocksInMomentum {", ExpectKeySub: "filterBlocksToCommit"},
			{Name: "flush-on-contract-send", File: "chain/account_pool.go", Old: "if blocks[index].BlockType != nom.BlockTypeContractSend {", New: "if blocks[index].BlockType != nom.BlockTypeContractReceive {", ExpectKeySub: "filterBlocksToCommit"},
			{Name: "nil-locker-accepted", File: "chain/momentum_pool.go", Old: "func (c *momentumPool) RollbackTo(insertLocker sync.Locker, identifier types.HashHeight) error {\n\tc.log.Info(\"rollbacking momentums\", \"to-identifier\", identifier)\n\tif insertLocker == nil {\n\t\treturn errors.Errorf(\"insertLocker can't be nil\")\n\t}\n", New: "func (c *momentumPool) RollbackTo(insertLocker sync.Locker, identifier types.HashHeight) error {\n\tc.log.Info(\"rollbacking momentums\", \"to-identifier\", identifier)\n", ExpectKeySub: "RollbackTo"},
		},
	})
}

func runC14(r *Run) {
	poolInvalidationRules(r)
	gab := "protocol.(chainBridge).AddAccountBlocks"
	r.Has(gab, "recv.chain.AddAccountBlockTransaction(recv.chain.AcquireInsert(…),recv.supervisor.ApplyBlock(a0[iter])#0)", "gossiped blocks enter the pool under the fork-choice rule: every node must keep the same winner among unconfirmed competitors whatever the arrival order")
	r.CallCount(gab, ".ForceAddAccountBlockTransaction", 0, "only blocks already chosen by a momentum producer are force-added (InsertChain), never gossip")
	r.CacheInventory([]string{"chain", "chain/account", "chain/momentum"}, cacheTriage, "pool state is derived from the stable ledger")
	// (1) locksets and windows
	r.Lockset("chain", "accountPool", "changes", []string{"managers"},
		[]string{"getAccountManager", "canRollback", "addAccountBlockTransaction", "rebuild", "getStableAccountStore", "getFrontierAccountStore", "getUncommittedAccountBlocksByAddress"}, nil,
		"the per-account managers are read by RPC, the producer and the verifier while sync and gossip insert")
	r.LockWindows("chain", "accountPool", "changes", nil, "the pool's check-then-act sequences (look up or create a manager, compare frontier then add) must be atomic")
	r.LockWindows("chain", "momentumPool", "changes", map[string]string{
		"AddMomentumTransaction": "listeners are notified outside the pool lock (they call back into the chain); the caller holds the insert lock, which serialises all writers",
		"RollbackTo":             "same, per popped momentum",
	}, "only the two broadcast windows may release the momentum pool's lock mid-operation")
	r.LockWindows("chain", "momentumEventManager", "changes", nil, "listener list is stable during a broadcast")
	for _, f := range []string{"AddMomentumTransaction", "RollbackTo", "GetFrontierMomentumStore", "GetMomentumStore", "GetStableAccountDB"} {
		fn := "chain.(*momentumPool)." + f
		for _, m := range []string{".Add", ".Pop", ".Frontier", ".Get"} {
			if len(r.P.FindCalls(r.P.Fn(fn), m, false)) > 0 {
				r.CallsUnderLock(fn, "changes", m, "the chain manager is used only under the momentum pool's lock")
			}
		}
	}
	r.CallsUnderLock("chain.(*momentumPool).AddMomentumTransaction", "changes", "chain.(*momentumPool).getFrontierStore", "frontier reads happen under the lock")
	r.CallsUnderLock("chain.(*momentumEventManager).broadcastInsertMomentum", "changes", ".InsertMomentum", "listeners run under the event manager's lock")
	r.CallsUnderLock("chain.(*momentumEventManager).broadcastDeleteMomentum", "changes", ".DeleteMomentum", "listeners run under the event manager's lock")

	// (2) insert-lock typestate
	for _, f := range []string{"chain.(*accountPool).AddAccountBlockTransaction", "chain.(*accountPool).ForceAddAccountBlockTransaction", "chain.(*momentumPool).AddMomentumTransaction", "chain.(*momentumPool).RollbackTo"} {
		r.Guards([]row{{F: f, C: "eq(a0,nil)", Why: "every mutation of chain or pool requires the holder of the insert lock"}})
	}
	r.ArgIs("chain.(*accountPool).AddAccountBlockTransaction", "chain.(*accountPool).addAccountBlockTransaction", 1, []string{"false"}, "gossip/RPC insertion obeys the fork-choice rule")
	r.ArgIs("chain.(*accountPool).ForceAddAccountBlockTransaction", "chain.(*accountPool).addAccountBlockTransaction", 1, []string{"true"}, "only the sync path (a confirmed block) overrides it")

	// (3) fork choice
	hp := "chain.higherPriority"
	r.Guards([]row{
		{F: hp, C: "lt((a0.TotalPlasma*a1.BasePlasma),(a1.TotalPlasma*a0.BasePlasma))", Why: "a lower plasma ratio loses (a.Total/a.Base < b.Total/b.Base, cross-multiplied)"},
		{F: hp, C: "le(a1.Hash.Bytes()[:],a0.Hash.Bytes()[:]) @ eq((a0.TotalPlasma*a1.BasePlasma),(a1.TotalPlasma*a0.BasePlasma))", Why: "on an equal ratio the not-smaller hash loses; the equality test uses the same two mirror-image products as the ratio test, which makes the rule antisymmetric"},
	})
	r.Returns(hp, []string{"chain.ErrPlasmaRatioIsWorse", "chain.ErrHashTieBreak", "nil"}, "verdict forms")
	add := "chain.(*accountPool).addAccountBlockTransaction"
	r.Alias("$fr", "recv.getFrontierAccountStore(a0.Block.Address)")
	r.Alias("$side", "ne(a0.Block.Previous(),$fr.Identifier())")
	r.Guards([]row{
		{F: add, C: "ne(nil,recv.canRollback(a0.Block)) @ $side", Pre: []string{".Pop"}, Why: "nothing is displaced unless the new block links into the pooled chain above the stable state"},
		{F: add, C: "ne(chain.higherPriority(a0.Block,$fr.ByHeight(a0.Block.Identifier().Height)#0),nil) @ F(a1) & $side", Pre: []string{".Pop"}, Why: "a competitor is displaced only by a higher-priority block, unless the insertion is forced by sync"},
		{F: add, C: "ne(nil,recv.getAccountManager(a0.Block.Address).Pop()) @ $side", Why: "a failed pop aborts the insertion"},
		{F: "chain.(*accountPool).canRollback", C: "le(a0.Identifier().Height,recv.getStableAccountStore(a0.Address).Identifier().Height)", Why: "a confirmed block is never displaced"},
		{F: "chain.(*accountPool).canRollback", C: "eq(nil,recv.getFrontierAccountStore(a0.Address).ByHeight((a0.Identifier().Height-1))#0)", Why: "the predecessor must be in the pooled chain"},
		{F: "chain.(*accountPool).canRollback", C: "ne(a0.Previous(),recv.getFrontierAccountStore(a0.Address).ByHeight((a0.Identifier().Height-1))#0.Identifier())", Why: "and be exactly the stated previous"},
	})
	r.Branch(add, "eq(a0.Block.Previous(),$fr.Identifier())", "extending the pooled frontier is a plain append")
	r.Branch(add, "eq(a0.Block.Previous(),db.GetFrontierIdentifier(recv.getAccountManager(a0.Block.Address).Frontier()))", "the pop loop stops exactly when the frontier is the new block's previous")
	r.Returns(add, []string{"recv.getAccountManager(a0.Block.Address).Add(a0)", "fmt.Errorf(%w,chain.ErrFailedToAddAccountBlockTransaction)", "nil", "recv.canRollback(a0.Block)", "chain.higherPriority(a0.Block,$fr.ByHeight(a0.Block.Identifier().Height)#0)"}, "the block enters through Manager.Add (parent check applies) in both the append and the replace path")
	r.Guards([]row{{F: "common/db.(*memdbManager).Pop", C: "eq(recv.frontierIdentifier,recv.stableIdentifier)", Why: "pop stops at the stable state: confirmed blocks cannot be displaced by any pool operation"}})

	// (4) momentum content
	fb := "chain.(*accountPool).filterBlocksToCommit"
	r.Alias("$batch", "append(iter(make([]*nom.AccountBlock,0,chain.MaxAccountBlocksInMomentum)),list(a0[iter]))")
	r.Alias("$commit", "iter(make([]*nom.AccountBlock,0,len(a0)))")
	r.Branch(fb, "ne(4,a0[iter].BlockType)", "a batch ends only on a block that is not a contract send: a contract's receive and its descendant sends are never split")
	r.Branch(fb, "lt(chain.MaxAccountBlocksInMomentum,(len($commit)+len($batch)))", "a batch is committed only while the total stays within the per-momentum limit")
	r.Returns(fb, []string{"$commit"}, "the offered content is the committed prefix")
	r.Returns("chain.(*accountPool).GetNewMomentumContent", []string{"recv.filterBlocksToCommit(recv.GetAllUncommittedAccountBlocks())"}, "production offers the filtered pool content")

	// (5) pool follows the chain
	r.MustCall("chain.(*accountPool).InsertMomentum", "chain.(*accountPool).rebuild", "after every momentum the pool is rebuilt on the new stable state")
	r.Has("chain.(*accountPool).DeleteMomentum", "store recv.managers = make(map[types.Address]db.Manager)", "a rollback invalidates the whole pool")
	rb := "chain.(*accountPool).rebuild"
	r.GuardLike(rb, "ne(db.NewMemDBManager(recv.stable.GetStableAccountDB(", "a pooled block that no longer links is refused by Manager.Add's parent check and aborts the rebuild")
	r.HasPrefix(rb, "store recv.managers[", "the rebuilt manager replaces the old one")
	r.HasPrefix(rb, "delete(recv.managers,", "the old manager is dropped first")
}
