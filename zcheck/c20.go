package main

import (
	"strings"
)

// C20 — genesis: same config, same chain; inconsistent config or database refused.

func init() {
	register(&propDef{
		ID: "C20",
		Explain: "Structural necessary conditions: (1) K9 the genesis construction region (NewGenesis and everything it reaches) has no clock/randomness/goroutines and every map loop is triaged with its order-sensitivity signature (BalanceList: per-token SetBalance; fused amounts: per-beneficiary record; pool managers: sorted by NewMomentumContent before hashing); every entry of GenesisBlocks.Blocks for an address contributes (no early exit from the entry loop of wrap); " +
			"(2) K2 ReadGenesisConfigFromFile reaches NewGenesis only through a nil CheckGenesis, which wires all five validators; CheckTokenTotalSupply compares the declared supply with the sum over all entries in both directions; (3) K3+K2 chain.Init runs checkGenesisCompatibility first and returns its error; it compares the stored height-1 momentum's hash — read from the store, not from the configuration — with the configured genesis hash, and an empty store receives exactly the configured genesis transaction; " +
			"(4) K10 constructor/validator agreement: the constructor overwrites balances per (address, token) while the validator sums the entries, so some validator wired into CheckGenesis must reject a repeated address or (address, token) pair (D13, repaired by a fix: commit — the rule reports it again if the validator disappears); no other call on the construction path drops an error result (the six pool insertions are the one reasoned exception).",
		NotDec: "equality of hashes across processes/permutations on values; rejection of every inconsistent configuration (the validators' arithmetic).",
		Run:    runC20,
		Controls: []control{
			{Name: "wrap-first-entry-only", File: "chain/genesis/account_block.go", Old: "\t\tfor zts, balance := range block.BalanceList {\n\t\t\tcommon.DealWithErr(context.SetBalance(zts, balance))\n\t\t}\n", New: "\t\tfor zts, balance := range block.BalanceList {\n\t\t\tcommon.DealWithErr(context.SetBalance(zts, balance))\n\t\t}\n\t\tbreak\n", ExpectKeySub: "wrap"},
			{Name: "compat-reads-config", File: "chain/momentum/momentum.go", Old: "func (ms *momentumStore) GetMomentumByHeight(height uint64) (*nom.Momentum, error) {\n", New: "func (ms *momentumStore) GetMomentumByHeight(height uint64) (*nom.Momentum, error) {\n\tif height == 1 && ms.Genesis != nil && !ms.Identifier().IsZero() {\n\t\treturn ms.GetGenesisMomentum(), nil\n\t}\n", ExpectKeySub: "GetMomentumByHeight"},
			{Name: "validator-unwired", File: "chain/genesis/shared_tests.go", Old: "\tif err := CheckTokenTotalSupply(g); err != nil {\n\t\treturn err\n\t}\n", New: "", ExpectKeySub: "CheckTokenTotalSupply"},
			{Name: "check-skipped-on-load", File: "chain/genesis/config.go", Old: "\t\tif err := CheckGenesis(config); err != nil {", New: "\t\tif err := CheckGenesis(config); err != nil && len(config.ExtraData) == 0 {", ExpectKeySub: "CheckGenesis"},
			{Name: "clock-in-genesis", File: "chain/genesis/momentum.go", Old: "timestamp := time.Unix(genesisConfig.GenesisTimestampSec, 0)", New: "timestamp := time.Unix(genesisConfig.GenesisTimestampSec, int64(time.Now().Nanosecond()))", ExpectKeySub: "clock"},
			{Name: "compat-height-2", File: "chain/chain.go", Old: "genesisMomentum, err := frontierStore.GetMomentumByHeight(1)", New: "genesisMomentum, err := frontierStore.GetMomentumByHeight(frontierStore.Identifier().Height)", ExpectKeySub: "checkGenesisCompatibility"},
			{Name: "unique-check-unwired", File: "chain/genesis/shared_tests.go", Old: "\tif err := CheckUniqueBalances(g); err != nil {\n\t\treturn err\n\t}\n", New: "", ExpectKeySub: "repeated (address, token)"},
			{Name: "unique-check-inverted", File: "chain/genesis/shared_tests.go", Old: "if _, ok := seen[key]; ok {", New: "if _, ok := seen[key]; !ok && len(seen) > 1<<40 {", ExpectKeySub: "repeated (address, token)"},
			{Name: "genesis-error-dropped", File: "chain/genesis/account_block.go", Old: "common.DealWithErr(token.Save(contextStorage))", New: "token.Save(contextStorage)", ExpectKeySub: "K2-error-discipline"},
			{Name: "supply-check-one-sided", File: "chain/genesis/shared_tests.go", Old: "} else if token.TotalSupply.Cmp(total) != 0 {", New: "} else if token.TotalSupply.Cmp(total) > 0 {", ExpectKeySub: "CheckTokenTotalSupply"},
		},
	})
}

func runC20(r *Run) {
	// (1) determinism of the construction
	reg := r.Region("GENESIS", []string{"chain/genesis.NewGenesis"}, false)
	r.Determinism("GENESIS", reg, ccrTriage, "the genesis momentum is a pure function of the configuration")
	wr := "chain/genesis.wrap"
	genesisSupplyRules(r)
	r.Has(wr, "store new(nom.AccountBlock).ChangesHash = db.PatchHash(a1.Changes()#0)", "the genesis block commits to its state")
	r.Has("chain/genesis.newGenesisMomentum", "nom.NewMomentumContent(a1.GetAllUncommittedAccountBlocks())", "content is canonicalised (sorted) by NewMomentumContent before hashing")
	r.Has("chain/genesis.newGenesisMomentum", "time.Unix(a0.GenesisTimestampSec,0)", "timestamp comes from the configuration")

	// (3) database compatibility
	ci := "chain.(*chain).Init"
	r.Guards([]row{{F: ci, C: "ne(nil,recv.checkGenesisCompatibility())", Pre: []string{".Register", "chain.GotAllActiveSporksImplemented"}, Why: "the node refuses to start on an incompatible database before doing anything else"}})
	cc := "chain.(*chain).checkGenesisCompatibility"
	r.Alias("$fs", "recv.momentumPool.GetFrontierMomentumStore()")
	r.Guards([]row{
		{F: cc, C: "ne(recv.Genesis.GetGenesisMomentum().Hash,$fs.GetMomentumByHeight(1)#0.Hash) @ F($fs.Identifier().IsZero())", Why: "the stored first momentum must be the configured genesis"},
		{F: cc, C: "ne(nil,$fs.GetMomentumByHeight(1)#1) @ F($fs.Identifier().IsZero())", Why: "lookup failure refuses"},
	})
	r.GuardLike(cc, "ne(nil,recv.momentumPool.AddMomentumTransaction(", "a failed genesis insertion refuses")
	r.HasPrefix(cc, "recv.momentumPool.AddMomentumTransaction(recv.AcquireInsert(…),recv.Genesis.GetGenesisTransaction())", "an empty store receives exactly the configured genesis transaction")
	r.Returns("chain/momentum.(*momentumStore).GetMomentumByHeight", []string{"momentum.parseMomentum(db.GetEntryByHeight(recv.DB,a0)#0,db.GetEntryByHeight(recv.DB,a0)#1)#0, momentum.parseMomentum(db.GetEntryByHeight(recv.DB,a0)#0,db.GetEntryByHeight(recv.DB,a0)#1)#1"}, "the height lookup reads the stored record only — never the configured genesis — so the compatibility check compares store against configuration")

	r.NoDroppedErrors([]string{"chain/genesis.newGenesisAccountBlocks", "chain/genesis.genesisSporkContractConfig", "chain/genesis.genesisPillarContractConfig", "chain/genesis.genesisTokenContractConfig", "chain/genesis.genesisPlasmaContractConfig", "chain/genesis.genesisSwapContractConfig", "chain/genesis.wrap", "chain/genesis.newGenesisMomentum", "chain/genesis.NewGenesis"},
		map[string]string{"chain/genesis.newGenesisAccountBlocks|iface:chain.AccountPool.AddAccountBlockTransaction": "inserting the first block of an address into the fresh in-memory pool fails only for an address that already has a block; embedded addresses are skipped through alreadySet and repeated addresses are refused by CheckUniqueBalances (rule K10-constructor-validator)"},
		"a construction step that fails must not be skipped silently: the resulting genesis would differ from the validated configuration")
}

// genesisSupplyRules: the initial state is exactly what the validated configuration declares — every
// listed balance is written, the validators are wired and compare the declared supply with the sum
// in both directions, and constructor and validator aggregate the list the same way (shared by C20, C01).
func genesisSupplyRules(r *Run) {
	wr := "chain/genesis.wrap"
	r.Has(wr, "common.DealWithErr(a1.SetBalance(next(range(a0.GenesisBlocks.Blocks[iter].BalanceList))#1,next(range(a0.GenesisBlocks.Blocks[iter].BalanceList))#2))", "every (token, balance) of an entry is written")
	r.Branch(wr, "ne(a0.GenesisBlocks.Blocks[iter].Address,a1.Address())", "entries are selected by address")
	r.LoopNoEarlyExit(wr, "a0.GenesisBlocks.Blocks", "every entry of the unordered Blocks list that names the address contributes; stopping at the first match makes the state depend on the order of entries and drops balances the validators counted")
	rd := "chain/genesis.ReadGenesisConfigFromFile"
	r.Order(rd, "chain/genesis.CheckGenesis", "chain/genesis.NewGenesis", "a configuration is turned into a chain only after it passed validation")
	cg := "chain/genesis.CheckGenesis"
	for _, v := range []string{"CheckFieldsExist", "CheckUniqueBalances", "CheckPlasmaInfo", "CheckSwapAccount", "CheckPillarBalance", "CheckTokenTotalSupply"} {
		r.Guards([]row{{F: cg, C: "ne(genesis." + v + "(a0),nil)", Why: "validator " + v + " is wired and its failure rejects the configuration"}})
	}
	ts := "chain/genesis.CheckTokenTotalSupply"
	r.GuardLike(ts, "F(make(map[types.ZenonTokenStandard]*big.Int)[", "a declared token with no balance entry is refused")
	r.GuardLike(ts, "ne(a0.TokenConfig.Tokens[iter].TotalSupply,make(map[types.ZenonTokenStandard]*big.Int)[", "declared supply must equal the sum of the balances, in both directions")
	r.GuardLike(ts, "F(phi(false|true))", "a balance in an undeclared token is refused")
	r.Branch(ts, "eq(a0.TokenConfig.Tokens[iter].TokenStandard,next(range(make(map[types.ZenonTokenStandard]*big.Int)))#1)", "the undeclared-token scan compares every summed token with every declared token")

	// keyed lists the constructor treats as one state entry per key
	dup := false
	wired := map[string]bool{}
	for _, cs := range r.P.Calls(r.P.Fn(cg), false) {
		wired[cs.Callee] = true
	}
	for _, name := range r.P.FuncNames() {
		if !strings.HasPrefix(name, "chain/genesis.") || !wired[name] {
			continue
		}
		fn := r.P.Fn(name)
		if fn.Blocks == nil {
			continue
		}
		// a membership test, in a wired validator, on a set keyed by the entry's address (alone or
		// together with the token) whose positive answer rejects, and that the same loop fills
		addrKeyed := map[string]bool{} // struct types one of whose fields is filled from the entry's address
		fills := false
		for _, e := range r.P.Effects(fn) {
			if e.Kind != "store" {
				continue
			}
			if strings.HasPrefix(e.Canon, "store new(") && strings.HasSuffix(e.Canon, " = a0.GenesisBlocks.Blocks[iter].Address") {
				if i := strings.Index(e.Canon, ")."); i > 0 {
					addrKeyed[e.Canon[len("store "):i+1]] = true
				}
			}
			if strings.HasPrefix(e.Canon, "store make(map[") {
				fills = true
			}
		}
		for _, g := range r.P.Info(fn).guards {
			c := g.RejCond.String()
			if g.Reject == "" || !strings.HasPrefix(c, "T(make(map[") || !strings.HasSuffix(c, "#1)") {
				continue
			}
			keyed := strings.Contains(c, "[a0.GenesisBlocks.Blocks[iter].Address]")
			for k := range addrKeyed {
				if strings.Contains(c, "["+k+"]") {
					keyed = true
				}
			}
			if keyed && fills {
				dup = true
			}
		}
	}
	file, line := r.P.FnPos(r.P.Fn(wr))
	if dup {
		r.pass("K10-constructor-validator", wr, "repeated (address, token) balance in GenesisBlocks.Blocks", "a wired validator rejects a repeated address or (address, token) pair", "constructor and validator must aggregate the same list the same way", file, line)
	} else {
		r.viol("K10-constructor-validator", wr, "repeated (address, token) balance in GenesisBlocks.Blocks", "genesis.wrap writes balances with SetBalance per (address, token) entry — for an address listed twice with the same token the last entry wins — while CheckTokenTotalSupply sums all entries, and no wired validator rejects a repeated address or (address, token) pair: such a configuration passes CheckGenesis with declared supply ≠ Σ balances of the constructed state", "constructor and validator must aggregate the same list the same way", file, line)
	}
}
