package main

import (
	"encoding/json"
	"fmt"
	"os"
	"path/filepath"
	"sort"
	"strconv"
	"strings"
	"time"

	"golang.org/x/tools/go/ssa"
)

// Obl is one obligation: a rule applied to one construct.
type Obl struct {
	Rule   string `json:"rule"`
	Key    string `json:"key"` // rule|function|construct — stable identity used by known findings
	Func   string `json:"function"`
	File   string `json:"file,omitempty"`
	Line   int    `json:"line,omitempty"`
	Status string `json:"status"` // discharged | violated | known-finding
	Detail string `json:"detail,omitempty"`
	Why    string `json:"why,omitempty"`
}

// Run is one property check.
type Run struct {
	P        *Prog
	Prop     string
	Tier     string
	Obls     []*Obl
	Notes    []string
	Funcs    map[string]bool
	Regions  map[string]int
	NCalls   int
	Explain  string
	NotDec   string
	Exhaust  bool
	Configs  []string
	controls []controlResult
	alias    map[string]string
}

type controlResult struct {
	Name   string `json:"name"`
	Fired  bool   `json:"fired"`
	Detail string `json:"detail,omitempty"`
}

func (r *Run) add(rule, fn, construct, status, detail, why string, file string, line int) *Obl {
	o := &Obl{Rule: rule, Key: rule + "|" + fn + "|" + construct, Func: fn, File: file, Line: line, Status: status, Detail: detail, Why: why}
	r.Obls = append(r.Obls, o)
	if fn != "" {
		r.Funcs[fn] = true
	}
	return o
}

func (r *Run) pass(rule, fn, construct, detail, why string, file string, line int) {
	r.add(rule, fn, construct, "discharged", detail, why, file, line)
}

func (r *Run) viol(rule, fn, construct, detail, why string, file string, line int) {
	r.add(rule, fn, construct, "violated", detail, why, file, line)
}

// fnOrFail resolves a canonical function name; an unresolved anchor is a violation (fail closed).
func (r *Run) fn(name string) *ssa.Function {
	f := r.P.Fn(name)
	if f == nil || f.Blocks == nil {
		r.viol("unresolved-anchor", name, "function", "function "+name+" not found in the analysed program (renamed, removed or excluded by build configuration); the rules anchored on it cannot be decided", "", "", 0)
		return nil
	}
	r.Funcs[name] = true
	return f
}

// ---------------------------------------------------------------------------------------------
// known findings

type KnownFinding struct {
	Property     string `json:"property"`
	Key          string `json:"key"`
	Status       string `json:"status"` // known | fixed
	Commit       string `json:"commit,omitempty"`
	WhatFails    string `json:"what_fails"`
	Reproduction string `json:"reproduction,omitempty"`
	Defect       string `json:"defect,omitempty"`
}

func loadKnown(verif string) ([]KnownFinding, error) {
	b, err := os.ReadFile(filepath.Join(verif, "known_findings.json"))
	if err != nil {
		if os.IsNotExist(err) {
			return nil, nil
		}
		return nil, err
	}
	var out struct {
		Findings []KnownFinding `json:"findings"`
	}
	if err := json.Unmarshal(b, &out); err != nil {
		return nil, err
	}
	return out.Findings, nil
}

// ---------------------------------------------------------------------------------------------
// driver

type propDef struct {
	ID      string
	Run     func(r *Run)
	Explain string // what is decided
	NotDec  string // what is not decided
	// Controls: name -> overlay mutation (thorough tier): file (repo relative), old, new; the rule must fire.
	Controls []control
}

type control struct {
	Name string
	File string
	Old  string
	New  string
	// ExpectKeySub: a substring that must occur in the key of at least one violated obligation.
	ExpectKeySub string
}

var props = map[string]*propDef{}

func register(p *propDef) { props[p.ID] = p }

func runProperty(id, tier string, start time.Time) (code int) {
	def := props[id]
	if def == nil {
		fmt.Fprintf(os.Stderr, "unknown property %s\n", id)
		return 2
	}
	evDir := filepath.Join(*flagVerif, "evidence")
	os.MkdirAll(filepath.Join(evDir, "violations"), 0o755)
	// remove stale violation files for this property
	if old, _ := filepath.Glob(filepath.Join(evDir, "violations", id+"-*.json")); old != nil {
		for _, f := range old {
			os.Remove(f)
		}
	}
	r := &Run{Prop: id, Tier: tier, Funcs: map[string]bool{}, Regions: map[string]int{}, Explain: def.Explain + commonExplain(def.ID), NotDec: def.NotDec}
	var fatal string
	func() {
		defer func() {
			if e := recover(); e != nil {
				fatal = fmt.Sprintf("analyser panic: %v", e)
				if os.Getenv("ZCHECK_DEBUG") != "" {
					panic(e)
				}
			}
		}()
		cfg := LoadConfig{RepoDir: *flagRepo, Tags: *flagTags}
		if *flagControl != "" {
			ov, err := controlOverlay(def, *flagControl)
			if err != nil {
				fatal = err.Error()
				return
			}
			cfg.Overlay = ov
		}
		p, err := Load(cfg)
		if err != nil {
			fatal = "load failed: " + err.Error()
			return
		}
		r.P = p
		r.Configs = append(r.Configs, "linux/amd64 default tags")
		checkAnchors(r)
		runWithCommon(def, r)
	}()
	if fatal != "" {
		r.viol("analysis-failed", "", "driver", fatal, "a checker that cannot see the code must not pass", "", 0)
	}
	if *flagControl != "" {
		// control mode: print violated keys, never write evidence
		n := 0
		knownC, _ := loadKnown(*flagVerif)
		for _, o := range r.Obls {
			if o.Status == "violated" {
				isKnown := false
				for _, k := range knownC {
					if k.Status == "known" && k.Property == id && k.Key == o.Key {
						isKnown = true
					}
				}
				if isKnown {
					continue
				}
				fmt.Printf("CONTROL-FIRED %s :: %s\n", o.Key, o.Detail)
				n++
			}
		}
		if n == 0 {
			fmt.Println("CONTROL-SILENT")
		}
		return 0
	}
	if *flagAlt {
		known, _ := loadKnown(*flagVerif)
		for _, o := range r.Obls {
			if o.Status != "violated" {
				continue
			}
			isKnown := false
			for _, k := range known {
				if k.Status == "known" && k.Property == id && k.Key == o.Key {
					isKnown = true
				}
			}
			if !isKnown {
				fmt.Printf("ALTCONFIG-VIOLATION %s :: %s\n", o.Key, o.Detail)
			}
		}
		fmt.Printf("ALTCONFIG-DONE obligations=%d\n", len(r.Obls))
		return 0
	}
	if tier == "thorough" && fatal == "" {
		thoroughExtras(r, def)
	}
	known, err := loadKnown(*flagVerif)
	if err != nil {
		r.viol("analysis-failed", "", "known_findings.json", "cannot read known findings: "+err.Error(), "", "", 0)
	}
	nKnown, nViol, nOK := 0, 0, 0
	vi := 0
	var firstReplay string
	sort.SliceStable(r.Obls, func(i, j int) bool { return r.Obls[i].Key < r.Obls[j].Key })
	for _, o := range r.Obls {
		if o.Status != "violated" {
			if o.Status == "discharged" {
				nOK++
			}
			continue
		}
		matched := false
		for _, k := range known {
			if k.Status == "known" && k.Property == id && k.Key == o.Key {
				matched = true
				o.Status = "known-finding"
				fmt.Printf("KNOWN-FINDING: property=%s %s [%s] %s\n", id, k.Defect, o.Key, k.WhatFails)
				nKnown++
				break
			}
		}
		if matched {
			continue
		}
		nViol++
		vi++
		path := filepath.Join(evDir, "violations", fmt.Sprintf("%s-%d.json", id, vi))
		b, _ := json.MarshalIndent(map[string]interface{}{"property": id, "tier": tier, "obligation": o, "build": r.Configs}, "", " ")
		os.WriteFile(path, b, 0o644)
		if firstReplay == "" {
			firstReplay = path
		}
		fmt.Printf("VIOLATION property=%s replay=%s\n", id, path)
		fmt.Printf("  rule=%s function=%s %s:%d\n  %s\n", o.Rule, o.Func, o.File, o.Line, o.Detail)
	}
	writeEvidence(r, evDir, nOK, nKnown, nViol, time.Since(start).Seconds())
	fmt.Printf("%s %s: %d obligations, %d discharged, %d known findings, %d violations (%.1fs)\n", id, tier, len(r.Obls), nOK, nKnown, nViol, time.Since(start).Seconds())
	if nViol > 0 {
		return 1
	}
	return 0
}

// checkAnchors: every anchor file named by the property must be among the parsed files.
func checkAnchors(r *Run) {
	b, err := os.ReadFile(filepath.Join(*flagVerif, "properties.jsonl"))
	if err != nil {
		r.viol("analysis-failed", "", "properties.jsonl", err.Error(), "", "", 0)
		return
	}
	for _, line := range strings.Split(string(b), "\n") {
		if strings.TrimSpace(line) == "" {
			continue
		}
		var pr struct {
			ID      string `json:"id"`
			Anchors struct {
				Files []string `json:"files"`
			} `json:"anchors"`
		}
		if json.Unmarshal([]byte(line), &pr) != nil || pr.ID != r.Prop {
			continue
		}
		for _, f := range pr.Anchors.Files {
			if !r.P.Files[f] {
				r.viol("unresolved-anchor", "", "file:"+f, "anchor file "+f+" is not among the files parsed for this build configuration", "", f, 0)
			}
		}
	}
}

func writeEvidence(r *Run, evDir string, nOK, nKnown, nViol int, wall float64) {
	ruleCount := map[string]int{}
	for _, o := range r.Obls {
		ruleCount[o.Rule]++
	}
	var samples []*Obl
	// one sample per rule first, then fill up to 40
	seen := map[string]bool{}
	for _, o := range r.Obls {
		if !seen[o.Rule] {
			seen[o.Rule] = true
			samples = append(samples, o)
		}
	}
	for _, o := range r.Obls {
		if len(samples) >= 40 {
			break
		}
		dup := false
		for _, s := range samples {
			if s == o {
				dup = true
			}
		}
		if !dup {
			samples = append(samples, o)
		}
	}
	var fns []string
	for f := range r.Funcs {
		fns = append(fns, f)
	}
	sort.Strings(fns)
	seed, _ := strconv.Atoi(os.Getenv("VERIF_SEED"))
	expl := r.Explain
	if r.NotDec != "" {
		expl += " NOT decided: " + r.NotDec
	}
	cov := map[string]interface{}{
		"explanation":        expl,
		"obligations":        len(r.Obls),
		"discharged":         nOK,
		"known_findings":     nKnown,
		"rule_instances":     ruleCount,
		"functions_analysed": len(fns),
		"functions":          fns,
		"call_sites":         r.NCalls,
		"regions":            r.Regions,
		"build_configs":      r.Configs,
		"exhaustive":         r.Exhaust,
		"samples":            samples,
		"notes":              r.Notes,
		"checker_cmd":        fmt.Sprintf("./bin/zcheck -property %s -tier %s", r.Prop, r.Tier),
	}
	if r.P != nil {
		cov["packages_loaded"] = len(r.P.Roots)
		cov["files_parsed"] = len(r.P.Files)
	}
	if len(r.controls) > 0 {
		cov["positive_controls"] = r.controls
	}
	ev := map[string]interface{}{
		"property_id": r.Prop,
		"tier":        r.Tier,
		"seed":        seed,
		"level":       "other",
		"coverage":    cov,
		"assumptions": []string{
			"Go type checker and go/ssa construction are correct; CHA is sound for non-reflective calls",
			"reflection-driven code (vm/abi pack/unpack, rpc/server dispatch) is analysed only at its non-reflective boundary",
			"goleveldb batch atomicity / snapshot isolation, go-ethereum rlp, crypto/ed25519, AES-GCM, argon2, bip39 are trusted",
			"a discharged structural rule is a necessary condition of the property, not the property itself",
		},
		"wall_s":     wall,
		"violations": nViol,
	}
	b, _ := json.MarshalIndent(ev, "", " ")
	os.WriteFile(filepath.Join(evDir, r.Prop+".json"), b, 0o644)
}

func replay(path string) int {
	b, err := os.ReadFile(path)
	if err != nil {
		fmt.Fprintln(os.Stderr, err)
		return 2
	}
	var v struct {
		Property   string `json:"property"`
		Tier       string `json:"tier"`
		Obligation Obl    `json:"obligation"`
	}
	if err := json.Unmarshal(b, &v); err != nil {
		fmt.Fprintln(os.Stderr, err)
		return 2
	}
	fmt.Printf("replaying %s obligation %s\n  recorded: %s\n", v.Property, v.Obligation.Key, v.Obligation.Detail)
	def := props[v.Property]
	if def == nil {
		return 2
	}
	p, err := Load(LoadConfig{RepoDir: *flagRepo})
	if err != nil {
		fmt.Println("load failed:", err)
		fmt.Printf("VIOLATION property=%s replay=%s\n", v.Property, path)
		return 1
	}
	r := &Run{P: p, Prop: v.Property, Tier: "quick", Funcs: map[string]bool{}, Regions: map[string]int{}}
	runWithCommon(def, r)
	for _, o := range r.Obls {
		if o.Key == v.Obligation.Key {
			fmt.Printf("  now: status=%s %s:%d\n  %s\n", o.Status, o.File, o.Line, o.Detail)
			if o.Status == "violated" {
				fmt.Printf("VIOLATION property=%s replay=%s\n", v.Property, path)
				return 1
			}
			return 0
		}
	}
	fmt.Println("  obligation no longer produced on this tree")
	return 0
}
