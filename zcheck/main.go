package main

import (
	"encoding/json"
	"flag"
	"fmt"
	"os"
	"runtime/debug"
	"sort"
	"strings"
	"time"
)

var (
	flagRepo     = flag.String("repo", "/repo", "repository working tree to analyse")
	flagVerif    = flag.String("verif", "/verif", "verification directory (evidence, known findings)")
	flagProperty = flag.String("property", "", "property id (C01..C20)")
	flagTier     = flag.String("tier", "quick", "quick | thorough")
	flagCensus   = flag.String("census", "", "dump guards/calls of functions whose canonical name contains this string")
	flagReplay   = flag.String("replay", "", "replay a violation file")
	flagControl  = flag.String("control", "", "internal: run one positive control (name) for -property")
	flagList     = flag.Bool("list", false, "list canonical function names")
	flagTags     = flag.String("tags", "", "build tags")
	flagGen      = flag.String("gen", "", "print guard-table rows (Go syntax) for functions whose canonical name contains this string")
	flagDescribe = flag.Bool("describe", false, "print the registered properties (JSON) for MANIFEST generation")
	flagInv      = flag.String("inventory", "", "print the determinism inventory of a named region (CCR)")
	flagDivs     = flag.String("divs", "", "print division and sentinel-panic inventories for comma-separated function-name prefixes")
	flagGenTable = flag.String("gentable", "", "print a JSON guard table for all rejecting guards of functions declared in the comma-separated repo-relative files")
	flagAlt      = flag.Bool("altconfig", false, "internal: run the property under the build configuration given by GOOS/GOARCH/-tags and print ALTCONFIG lines")
)

func main() {
	flag.Parse()
	debug.SetGCPercent(400)
	start := time.Now()
	if t := os.Getenv("VERIF_TIER"); t != "" && !flagSet("tier") {
		*flagTier = t
	}
	if *flagDescribe {
		describe()
		return
	}
	if *flagReplay != "" {
		os.Exit(replay(*flagReplay))
	}
	if *flagInv != "" {
		p, err := Load(LoadConfig{RepoDir: *flagRepo, Tags: *flagTags})
		if err != nil {
			fmt.Fprintln(os.Stderr, err)
			os.Exit(2)
		}
		r := &Run{P: p, Funcs: map[string]bool{}, Regions: map[string]int{}}
		reg := r.Region(*flagInv, regionEntries[*flagInv], false)
		fmt.Println("region", *flagInv, "functions:", r.Regions[*flagInv])
		if os.Getenv("ZCHECK_SHAPES") != "" {
			type trow struct {
				F    string `json:"f"`
				C    string `json:"c"`
				File string `json:"file"`
			}
			var rows []trow
			for _, n := range strings.Split(os.Getenv("ZCHECK_SHAPES"), ",") {
				fn := p.Fn(n)
				if fn == nil {
					fmt.Fprintln(os.Stderr, "no such function", n)
					os.Exit(2)
				}
				file, _ := p.FnPos(fn)
				for _, s := range r.shapeOf(fn) {
					rows = append(rows, trow{n, s, file})
				}
			}
			b, _ := json.MarshalIndent(rows, "", " ")
			fmt.Println(string(b))
			return
		}
		if os.Getenv("ZCHECK_CACHES") != "" {
			for _, h := range r.cacheInventory(strings.Split(os.Getenv("ZCHECK_CACHES"), ",")) {
				fmt.Printf("%q: \"\", // %s %s:%d\n", h.Fn, h.What, h.File, h.Line)
			}
			return
		}
		if os.Getenv("ZCHECK_PANICS") != "" {
			for _, h := range r.panicInventory(reg) {
				fmt.Printf("%q: \"\", // %s:%d\n", h.Fn+"|"+h.What, h.File, h.Line)
			}
			return
		}
		for _, h := range r.determinismInventory(reg) {
			fmt.Printf("%q: %q, // %s:%d\n", h.Fn+"|"+h.What, h.Sig, h.File, h.Line)
		}
		for _, h := range r.frontierReadInventory(reg) {
			fmt.Printf("%q: \"\", // %s:%d via %s\n", h.Fn+"|"+h.What, h.File, h.Line, strings.Join(r.P.Chain(reg, r.P.Fn(h.Fn)), " → "))
		}
		return
	}
	if *flagDivs != "" {
		p, err := Load(LoadConfig{RepoDir: *flagRepo, Tags: *flagTags})
		if err != nil {
			fmt.Fprintln(os.Stderr, err)
			os.Exit(2)
		}
		r := &Run{P: p, Funcs: map[string]bool{}, Regions: map[string]int{}}
		for _, d := range r.divisionInventory(strings.Split(*flagDivs, ",")) {
			fmt.Printf("%q: \"\", // %s %s:%d const=%v guarded=%v\n", d.Fn+"|"+d.Divisor, d.Op, d.File, d.Line, d.Const, d.Guarded)
		}
		if os.Getenv("ZCHECK_NIL") != "" {
			for _, s := range r.nilInventory(strings.Split(*flagDivs, ",")) {
				fmt.Printf("%q: \"\", // %s:%d checked=%v use=%s\n", s.Fn+"|"+s.Callee, s.File, s.Line, s.Checked, s.Use)
			}
			return
		}
		r.SentinelPanics(strings.Split(*flagDivs, ","), nil, "")
		for _, o := range r.Obls {
			if o.Status == "violated" {
				fmt.Printf("SENTINEL %q: \"\", // %s:%d %s\n", o.Func+"|"+strings.SplitN(o.Key, "|", 3)[2], o.File, o.Line, o.Detail[len(o.Detail)-120:])
			} else {
				fmt.Println(o.Detail)
			}
		}
		return
	}
	if *flagGenTable != "" {
		p, err := Load(LoadConfig{RepoDir: *flagRepo, Tags: *flagTags})
		if err != nil {
			fmt.Fprintln(os.Stderr, err)
			os.Exit(2)
		}
		files := map[string]bool{}
		for _, f := range strings.Split(*flagGenTable, ",") {
			files[f] = true
		}
		type trow struct {
			F    string `json:"f"`
			C    string `json:"c"`
			File string `json:"file"`
		}
		var rows []trow
		for _, n := range p.FuncNames() {
			fn := p.Fn(n)
			if fn.Blocks == nil {
				continue
			}
			file, _ := p.FnPos(fn)
			if !files[file] {
				continue
			}
			seen := map[string]bool{}
			for _, g := range p.Info(fn).guards {
				if g.Reject != "" && !seen[g.Full()] {
					seen[g.Full()] = true
					rows = append(rows, trow{n, g.Full(), file})
				}
			}
		}
		if os.Getenv("ZCHECK_RETURNS") == "funcs" {
			b, _ := json.MarshalIndent(p.FuncNames(), "", " ")
			fmt.Println(string(b))
			return
		}
		if os.Getenv("ZCHECK_RETURNS") == "context" {
			r := &Run{P: p, Funcs: map[string]bool{}, Regions: map[string]int{}}
			var crows []*ctxRow
			for _, n := range p.FuncNames() {
				fn := p.Fn(n)
				if fn.Blocks == nil {
					continue
				}
				file, _ := p.FnPos(fn)
				keep := false
				for f := range files {
					if strings.HasPrefix(file, f) {
						keep = true
					}
				}
				if !keep || strings.HasSuffix(file, ".pb.go") {
					continue
				}
				m := r.effectContexts(fn)
				var keys []string
				for k := range m {
					keys = append(keys, k)
				}
				sort.Strings(keys)
				for _, k := range keys {
					m[k].File = file
					if m[k].Ctx == nil {
						m[k].Ctx = []string{}
					}
					if m[k].Guards == nil {
						m[k].Guards = []string{}
					}
					crows = append(crows, m[k])
				}
			}
			b, _ := json.MarshalIndent(crows, "", " ")
			fmt.Println(string(b))
			return
		}
		if os.Getenv("ZCHECK_RETURNS") != "" {
			r := &Run{P: p, Funcs: map[string]bool{}, Regions: map[string]int{}}
			var rrows []trow
			for _, n := range p.FuncNames() {
				fn := p.Fn(n)
				if fn.Blocks == nil {
					continue
				}
				file, _ := p.FnPos(fn)
				keep := false
				for f := range files {
					if strings.HasPrefix(file, f) {
						keep = true
					}
				}
				if !keep || strings.HasSuffix(file, ".pb.go") {
					continue
				}
				forms := r.successForms(fn)
				if os.Getenv("ZCHECK_RETURNS") == "guards" {
					forms = r.mustPassGuards(fn)
				}
				if os.Getenv("ZCHECK_RETURNS") == "allguards" {
					forms = r.P.Info(fn).RejectConds()
					forms = append(forms, r.tailBoolRejects(fn)...)
					seen := map[string]bool{}
					var u []string
					for _, f := range forms {
						if !seen[f] {
							seen[f] = true
							u = append(u, f)
						}
					}
					forms = u
				}
				if os.Getenv("ZCHECK_RETURNS") == "branches" {
					forms = plainBranches(r, fn)
					if len(forms) == 0 {
						forms = []string{""} // the function is known and has no plain branch
					}
				}
				if os.Getenv("ZCHECK_RETURNS") == "alleffects" {
					forms = nil
					seen := map[string]bool{}
					for _, e := range p.Effects(fn) {
						if tableEffect(e) && !seen[e.Canon] {
							seen[e.Canon] = true
							forms = append(forms, e.Canon)
						}
					}
					sort.Strings(forms)
				}
				if os.Getenv("ZCHECK_RETURNS") == "chans" {
					forms = nil
					if fn.Parent() == nil {
						forms = chanMakes(r, fn)
					}
				}
				if os.Getenv("ZCHECK_RETURNS") == "effects" {
					forms = nil
					for c := range r.mustPassEffects(fn) {
						forms = append(forms, c)
					}
					sort.Strings(forms)
				}
				for _, s := range forms {
					rrows = append(rrows, trow{n, s, file})
				}
			}
			b, _ := json.MarshalIndent(rrows, "", " ")
			fmt.Println(string(b))
			return
		}
		if os.Getenv("ZCHECK_EFFECTS") != "" {
			var erows []trow
			for _, n := range p.FuncNames() {
				fn := p.Fn(n)
				if fn.Blocks == nil {
					continue
				}
				file, _ := p.FnPos(fn)
				if !files[file] {
					continue
				}
				seen := map[string]bool{}
				for _, e := range p.Effects(fn) {
					if !recordEffect(e) || seen[e.Canon] {
						continue
					}
					seen[e.Canon] = true
					erows = append(erows, trow{n, e.Canon, file})
				}
			}
			b, _ := json.MarshalIndent(erows, "", " ")
			fmt.Println(string(b))
			return
		}
		b, _ := json.MarshalIndent(rows, "", " ")
		fmt.Println(string(b))
		return
	}
	if *flagCensus != "" || *flagList || *flagGen != "" {
		p, err := Load(LoadConfig{RepoDir: *flagRepo, Tags: *flagTags})
		if err != nil {
			fmt.Fprintln(os.Stderr, err)
			os.Exit(2)
		}
		if *flagList {
			for _, n := range p.FuncNames() {
				fmt.Println(n)
			}
			return
		}
		if *flagGen != "" {
			for _, n := range p.FuncNames() {
				if !strings.Contains(n, *flagGen) || p.Fn(n).Blocks == nil {
					continue
				}
				for _, g := range p.Info(p.Fn(n)).guards {
					if g.Reject != "" {
						fmt.Printf("\t\t{F: %q, C: %q, Why: \"\"},\n", n, g.Full())
					}
				}
			}
			return
		}
		census(p, *flagCensus)
		return
	}
	if *flagProperty == "" {
		fmt.Fprintln(os.Stderr, "usage: zcheck -property Cnn [-tier quick|thorough]")
		os.Exit(2)
	}
	os.Exit(runProperty(*flagProperty, *flagTier, start))
}

// recordEffect selects the effects that record, consume or pay out contract state: stores into
// records and descendant blocks, Save/Delete of records, balance moves, big.Int mutation of record
// fields. Logging argument arrays are excluded.
func recordEffect(e *Effect) bool {
	c := e.Canon
	if strings.Contains(c, "interface{}") || strings.Contains(c, "Log.") || strings.Contains(c, "log.") {
		return false
	}
	switch e.Kind {
	case "store":
		if strings.HasPrefix(c, "store new([") {
			return strings.Contains(c, "nom.AccountBlock")
		}
		return true
	case "call":
		if strings.HasPrefix(c, "common.DealWithErr(") || strings.HasPrefix(c, "defer ") {
			return false
		}
		if strings.HasSuffix(c, ".Save(a0.Storage())") || strings.HasSuffix(c, ".Delete(a0.Storage())") {
			return true
		}
		if strings.Contains(e.Callee, "AddBalance") || strings.Contains(e.Callee, "SubBalance") || strings.HasSuffix(e.Callee, ".addReward") {
			return true
		}
		if strings.HasPrefix(e.Callee, "(*math/big.Int).") {
			switch e.Callee[len("(*math/big.Int)."):] {
			case "Add", "Sub", "Mul", "Quo", "Div", "Set", "SetInt64", "SetUint64":
				return true
			}
		}
	}
	return false
}

func describe() {
	type d struct {
		ID       string `json:"id"`
		Explain  string `json:"explain"`
		NotDec   string `json:"not_decided"`
		Controls int    `json:"controls"`
	}
	var out []d
	var ids []string
	for id := range props {
		ids = append(ids, id)
	}
	sort.Strings(ids)
	for _, id := range ids {
		p := props[id]
		out = append(out, d{p.ID, p.Explain + commonExplain(p.ID), p.NotDec, len(p.Controls)})
	}
	b, _ := json.MarshalIndent(out, "", " ")
	fmt.Println(string(b))
}

func flagSet(name string) bool {
	set := false
	flag.Visit(func(f *flag.Flag) {
		if f.Name == name {
			set = true
		}
	})
	return set
}

func census(p *Prog, sub string) {
	for _, n := range p.FuncNames() {
		if !strings.Contains(n, sub) {
			continue
		}
		fn := p.Fn(n)
		if fn.Blocks == nil {
			continue
		}
		fi := p.Info(fn)
		file, line := p.FnPos(fn)
		fmt.Printf("== %s  (%s:%d) fail=%s\n", n, file, line, fi.failKind)
		gs := append([]*Guard(nil), fi.guards...)
		sort.Slice(gs, func(i, j int) bool { return gs[i].Line < gs[j].Line })
		for _, g := range gs {
			if g.Reject != "" {
				fmt.Printf("   G %4d reject-if %s\n", g.Line, g.Full())
			} else {
				fmt.Printf("   g %4d branch    %s\n", g.Line, g.Cond)
			}
		}
		for _, e := range p.Effects(fn) {
			tag := "C"
			if e.Kind == "store" {
				tag = "S"
			} else if e.Kind == "return" {
				tag = "R"
			}
			fmt.Printf("   %s %4d %s   [%s]\n", tag, e.Line, e.Canon, e.Callee)
		}
	}
}
