package main

// C16 — sync adopts only verified, strictly longer chains within the rollback window.

func init() {
	register(&propDef{
		ID: "C16",
		Explain: "Structural necessary conditions on chainBridge.InsertChain (and AddAccountBlocks): the insert lock is acquired before the ledger is read and released on every exit; the known-prefix skip stops at the first unknown or differing momentum and an all-known delivery returns (0,nil) without touching the chain; the side-chain branch is taken when the first new momentum does not extend the frontier and chain.RollbackTo is dominated by the accept edges of the link guard (parent present and equal to the stated previous), the depth guard (> 30 ⇒ reject) and the length guard (tail height <= frontier height ⇒ reject), and rolls back to exactly that parent; " +
			"in the apply loop every non-batched block that is not already pooled goes through supervisor.ApplyBlock and only its result is force-added, the momentum goes through supervisor.ApplyMomentum and only its result is added, and every error edge returns index+start before any later insertion; the pool is fully invalidated when a momentum is rolled back (so 'already pooled' means 'verified against the current chain'). " +
			"Irreversible effect after verification: RollbackTo must not be reachable before any verification of the delivered momentums succeeded — it is (known finding D20).",
		NotDec: "which chain a node that failed mid-batch ends on beyond 'every element it holds was verified' (D20 shows it can be 30 shorter than before); behaviour of the downloader/fetcher queues that feed InsertChain (heap flow through channels is not tracked).",
		Run:    runC16,
		Controls: []control{
			{Name: "depth-300", File: "protocol/chain_bridge.go", Old: "if ourFrontier.Height-target.Height > 30 {", New: "if ourFrontier.Height-target.Height > 300 {", ExpectKeySub: "lt(30"},
			{Name: "not-longer-lt", File: "protocol/chain_bridge.go", Old: "if tail.Height <= ourFrontier.Height {", New: "if tail.Height < ourFrontier.Height {", ExpectKeySub: "Height"},
			{Name: "lock-after-read", File: "protocol/chain_bridge.go", Old: "\tinsert := c.chain.AcquireInsert(fmt.Sprintf(\"Insert momentums in chain-bridge. Start-identifier:%v End-identifier:%v\", a.Momentum.Identifier(), b.Momentum.Identifier()))\n\tdefer insert.Unlock()\n\n\tstore := c.chain.GetFrontierMomentumStore()\n", New: "\tstore := c.chain.GetFrontierMomentumStore()\n\tinsert := c.chain.AcquireInsert(fmt.Sprintf(\"Insert momentums in chain-bridge. Start-identifier:%v End-identifier:%v\", a.Momentum.Identifier(), b.Momentum.Identifier()))\n\tdefer insert.Unlock()\n", ExpectKeySub: "AcquireInsert"},
			{Name: "force-to-plain-add", File: "protocol/chain_bridge.go", Old: "if err := c.chain.ForceAddAccountBlockTransaction(insert, transaction); err != nil {", New: "if err := c.chain.AddAccountBlockTransaction(insert, transaction); err != nil {", ExpectKeySub: "ForceAddAccountBlockTransaction"},
			{Name: "unverified-momentum-added", File: "protocol/chain_bridge.go", Old: "\t\ttransaction, err := c.supervisor.ApplyMomentum(detailed)\n\t\tif err != nil {\n\t\t\treturn index + start, err\n\t\t}\n", New: "\t\ttransaction, err := c.supervisor.ApplyMomentum(detailed)\n\t\tif err != nil && index == 0 {\n\t\t\treturn index + start, err\n\t\t}\n", ExpectKeySub: "ApplyMomentum"},
			{Name: "wrong-failure-index", File: "protocol/chain_bridge.go", Old: "\t\ttransaction, err := c.supervisor.ApplyMomentum(detailed)\n\t\tif err != nil {\n\t\t\treturn index + start, err\n\t\t}\n", New: "\t\ttransaction, err := c.supervisor.ApplyMomentum(detailed)\n\t\tif err != nil {\n\t\t\treturn index, err\n\t\t}\n", ExpectKeySub: "result forms"},
			{Name: "rollback-to-head", File: "protocol/chain_bridge.go", Old: "err = c.chain.RollbackTo(insert, target.Identifier())", New: "err = c.chain.RollbackTo(insert, head.Previous())", ExpectKeySub: "RollbackTo"},
			{Name: "pool-partially-invalidated", File: "chain/account_pool.go", Old: "\tap.managers = make(map[types.Address]db.Manager)\n}", New: "\tdelete(ap.managers, types.PillarContract)\n}", ExpectKeySub: "DeleteMomentum"},
		},
	})
}

// c16Aliases defines the access paths of InsertChain used by the C16 rows (and the C02 subset).
func c16Aliases(r *Run) string {
	ic := "protocol.(chainBridge).InsertChain"
	r.Alias("$ins", "recv.chain.AcquireInsert(…)")
	r.Alias("$st", "recv.chain.GetFrontierMomentumStore()")
	r.Alias("$front", "$st.GetFrontierMomentum()#0")
	r.Alias("$head", "a0[iter:][0].Momentum")
	r.Alias("$tail", "a0[iter:][(len(a0[iter:])-1)].Momentum")
	r.Alias("$target", "$st.GetMomentumByHeight(($head.Height-1))#0")
	r.Alias("$side", "ne($head.Previous(),$front.Identifier()) & ne(iter,len(a0))")
	r.Alias("$blk", "a0[iter:][iter].AccountBlocks[iter]")
	r.Alias("$det", "a0[iter:][iter]")

	return ic
}

// applyLoopRules: every delivered block and momentum is verified as delivered, in order, and what is
// inserted is exactly the supervisor's verified transaction (shared by C16 and C02).
func applyLoopRules(r *Run, ic string) {
	r.Guards([]row{
		{F: ic, C: "ne(nil,recv.supervisor.ApplyBlock($blk)#1) @ eq(nil,recv.chain.GetPatch($blk.Address,$blk.Identifier())) & ne(4,$blk.BlockType) & ne(iter,len(a0))", Pre: []string{".ForceAddAccountBlockTransaction"}, Why: "only verified blocks enter the pool"},
		{F: ic, C: "ne(nil,recv.supervisor.ApplyMomentum($det)#1) @ ne(iter,len(a0))", Pre: []string{".AddMomentumTransaction"}, Why: "only verified momentums are inserted"},
		{F: ic, C: "ne(nil,recv.chain.AddMomentumTransaction($ins,recv.supervisor.ApplyMomentum($det)#0)) @ ne(iter,len(a0))", Why: "a failed insertion stops the batch"},
	})
	r.GuardLike(ic, "ne(nil,recv.chain.ForceAddAccountBlockTransaction($ins,recv.supervisor.ApplyBlock($blk)#0))", "a failed pool insertion stops the batch")
	r.Has(ic, "recv.chain.ForceAddAccountBlockTransaction($ins,recv.supervisor.ApplyBlock($blk)#0)", "what enters the pool is the supervisor's verified transaction of that very block, force-added (the momentum's producer already chose it: the node's own fork preference must not veto a confirmed block)")
	r.Has(ic, "recv.chain.AddMomentumTransaction($ins,recv.supervisor.ApplyMomentum($det)#0)", "what is inserted is the supervisor's verified transaction of that very momentum")
	r.Has(ic, "recv.supervisor.ApplyBlock($blk)", "each delivered block is verified as delivered")
	r.Branch(ic, "ne(nil,recv.chain.GetPatch($blk.Address,$blk.Identifier()))", "a block already in the pool (verified earlier) is not re-applied")
	r.Order(ic, "vm.(*Supervisor).ApplyMomentum", ".AddMomentumTransaction", "verify before insert")
}

func runC16(r *Run) {
	acceptancePathRules(r)   // what "verified" means for every delivered block
	descendantHashBinding(r) // and for what a delivered contract-receive carries
	r.CacheInventory([]string{"consensus", "consensus/storage", "verifier", "protocol", "chain", "chain/momentum"}, cacheTriage, "a side chain is verified against elections and views of *its* branch: a memo keyed by tick or height serves the abandoned branch's answer")
	ic := c16Aliases(r)

	// lock before read, released on every exit
	r.Order(ic, ".AcquireInsert", ".GetFrontierMomentumStore", "the ledger snapshot that decides link, window and length is taken under the insert lock — a stale snapshot would let the checks pass against a chain that has since grown")
	r.Has(ic, "defer $ins.Unlock()", "the insert lock is released on every exit")
	r.CallCount(ic, ".AcquireInsert", 1, "one lock for the whole operation")
	r.CallCount(ic, ".GetFrontierMomentumStore", 1, "one consistent view decides all guards")

	// known prefix
	r.Branch(ic, "eq(nil,$st.GetMomentumByHeight(a0[iter].Momentum.Height)#0)", "the skip stops at the first height the node does not have")
	r.Branch(ic, "ne(a0[iter].Momentum.Hash,$st.GetMomentumByHeight(a0[iter].Momentum.Height)#0.Hash)", "the skip stops at the first momentum that differs from the node's own")
	r.Branch(ic, "eq(iter,len(a0))", "all known ⇒ nothing to do")
	r.OnCondMustNotCall(ic, "eq(iter,len(a0))", []string{".RollbackTo", ".AddMomentumTransaction", ".ForceAddAccountBlockTransaction", "vm.(*Supervisor).ApplyMomentum"}, "re-delivering known momentums changes nothing")

	// side chain guards dominate the rollback
	pre := []string{".RollbackTo"}
	r.Guards([]row{
		{F: ic, C: "eq(nil,$target) @ $side", Pre: pre, Why: "the delivered chain must link to one of the node's own momentums"},
		{F: ic, C: "ne($head.Previous(),$target.Identifier()) @ $side", Pre: pre, Why: "the link is by full identifier (hash and height) of the stated previous"},
		{F: ic, C: "lt(30,($front.Height-$target.Height)) @ $side", Pre: pre, Why: "at most thirty heights below the frontier"},
		{F: ic, C: "le($tail.Height,$front.Height) @ $side", Pre: pre, Why: "only a strictly longer chain replaces the current one"},
		{F: ic, C: "ne(nil,$st.GetMomentumByHeight(($head.Height-1))#1) @ $side", Pre: pre, Why: "lookup failure refuses"},
		{F: ic, C: "ne(nil,$st.GetFrontierMomentum()#1) @ ne(iter,len(a0))", Pre: pre, Why: "lookup failure refuses"},
	})
	r.OnlyUnder(ic, "ne($head.Previous(),$front.Identifier())", ".RollbackTo", "the chain is left only for a side chain, never when the delivery extends the frontier")
	r.Has(ic, "recv.chain.RollbackTo($ins,$target.Identifier())", "the rollback goes exactly to the parent the delivered chain links to, under the held lock")
	r.GuardLike(ic, "ne(nil,recv.chain.RollbackTo($ins,$target.Identifier()))", "a failed rollback refuses the delivery")

	applyLoopRules(r, ic)
	r.Returns(ic, []string{
		"iter, $st.GetMomentumByHeight(a0[iter].Momentum.Height)#1", "0, nil", "0, $st.GetFrontierMomentum()#1", "0, $st.GetMomentumByHeight(($head.Height-1))#1",
		"0, errors.Errorf(…)",
		"(iter+iter), recv.supervisor.ApplyBlock($blk)#1",
		"(iter+iter), recv.chain.ForceAddAccountBlockTransaction($ins,recv.supervisor.ApplyBlock($blk)#0)",
		"(iter+iter), recv.supervisor.ApplyMomentum($det)#1",
		"(iter+iter), recv.chain.AddMomentumTransaction($ins,recv.supervisor.ApplyMomentum($det)#0)",
	}, "every failure in the apply loop reports index+start of the failing momentum; pre-loop refusals report 0")

	// D20
	r.Order(ic, "vm.(*Supervisor).ApplyMomentum", ".RollbackTo", "the node leaves its chain only for a chain whose momentums pass verification: no rollback before at least the first delivered momentum has been verified")

	// AddAccountBlocks (gossip path)
	ab := "protocol.(chainBridge).AddAccountBlocks"
	r.Order(ab, "vm.(*Supervisor).ApplyBlock", ".AddAccountBlockTransaction", "gossiped blocks are verified before they enter the pool")
	r.Has(ab, "recv.chain.AddAccountBlockTransaction(recv.chain.AcquireInsert(…),recv.supervisor.ApplyBlock(a0[iter])#0)", "the pooled transaction is the supervisor's result for that block, under the fork-choice rule (not forced)")

	// pool invalidation that the 'already pooled' shortcut relies on
	r.Has("chain.(*accountPool).DeleteMomentum", "store recv.managers = make(map[types.Address]db.Manager)", "a rolled-back momentum invalidates the whole pool: an unconfirmed block verified against the abandoned branch must not survive as 'already applied'")
}
