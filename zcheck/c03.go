package main

// C03 — only valid account blocks are accepted.
//
// Decided: the acceptance path has the shape verify → execute → pack+verify, every check method is
// wired, and each rejection the statement promises is present as a normalised guard (relation over
// access paths, with the enclosing branch context) that leads only to failure exits.

var c03Why = map[string]string{
	"verifier.(*accountBlockVerifier).all":                           "every stateless/stateful check of an account block must abort acceptance when it fails",
	"verifier.(*accountBlockTransactionVerifier).all":                "hash, signature, producer and descendant checks must abort acceptance when they fail",
	"verifier.(*accountBlockVerifier).version":                       "version must be exactly 1",
	"verifier.(*accountBlockVerifier).chainIdentifier":               "the block must belong to this chain",
	"verifier.(*accountBlockVerifier).blockType":                     "block type must be a known send/receive type matching the address class (user vs embedded)",
	"verifier.(*accountBlockVerifier).amounts":                       "send: non-negative amount below 2^255, token given when amount>0, no from-hash; receive: zero amount/token/to-address and a from-hash",
	"verifier.(*accountBlockVerifier).pow":                           "a PoW claim is honoured only for user blocks whose nonce checks out (C12)",
	"verifier.(*accountBlockVerifier).previous":                      "the block extends the account chain by exactly one height from its stated predecessor",
	"verifier.(*accountBlockVerifier).momentumAcknowledged":          "acknowledged momentum is on the node's chain; user: not older than the predecessor's; contract receive: exactly the confirming one",
	"verifier.(*accountBlockVerifier).fromHash":                      "a receive references a confirmed, not yet received send addressed to the receiver (from the enforcement height on)",
	"verifier.(*accountBlockVerifier).sequencer":                     "contract receives follow the inbox order (C04)",
	"verifier.(*accountBlockTransactionVerifier).hash":               "the hash must be present and equal the hash of the content",
	"verifier.(*accountBlockTransactionVerifier).signature":          "user blocks are signed over their hash with the stated key; contract blocks carry no key and no signature",
	"verifier.(*accountBlockTransactionVerifier).producer":           "the signing key must own the account",
	"verifier.(*accountBlockTransactionVerifier).descendantBlocks":   "only contract receives carry descendants and each descendant passes the block checks",
	"verifier.(*accountVerifier).AccountBlock":                       "externally submitted contract-sends are refused; context lookup failures reject",
	"verifier.(*accountVerifier).AccountBlockTransaction":            "externally submitted contract-sends are refused; context lookup failures reject",
	"verifier.(*accountVerifier).getContext":                         "height/previous shape and existence of the acknowledged momentum and of the predecessor's account state",
	"vm.(*Supervisor).ApplyBlock":                                    "contract sends can only be produced by the contract's receive, never applied on their own",
	"vm.(*Supervisor).applyBlock":                                    "acceptance = verify, execute, pack+verify; each failure rejects",
	"vm.(*Supervisor).packBlock":                                     "the finished transaction (hash, signature, producer, descendants) is verified before it is handed out",
	"vm.(*VM).applyBlock":                                            "plasma is checked first; a contract receive is regenerated and must equal the submitted block (changes hash and hash)",
	"vm.(*VM).applySend":                                             "contract calls are validated by the called method, and a send may not spend more than the account holds",
	"vm.enoughFunds":                                                 "balance of the sent token must cover the amount",
}

func c03Rows() []row {
	rows := []row{
		{F: "verifier.(*accountBlockTransactionVerifier).all", C: "ne(nil,recv.hash())"},
		{F: "verifier.(*accountBlockTransactionVerifier).all", C: "ne(nil,recv.signature())"},
		{F: "verifier.(*accountBlockTransactionVerifier).all", C: "ne(nil,recv.producer())"},
		{F: "verifier.(*accountBlockTransactionVerifier).all", C: "ne(nil,recv.descendantBlocks())"},
		{F: "verifier.(*accountBlockTransactionVerifier).descendantBlocks", C: "lt(0,len($tb.DescendantBlocks)) @ F(verifier.isContractReceive($tb))"},
		{F: "verifier.(*accountBlockTransactionVerifier).descendantBlocks", C: "ne(new(verifier.accountBlockVerifier).all(),nil)"},
		{F: "verifier.(*accountBlockTransactionVerifier).hash", C: "T($tb.Hash.IsZero())"},
		{F: "verifier.(*accountBlockTransactionVerifier).hash", C: "ne($tb.ComputeHash(),$tb.Hash)"},
		{F: "verifier.(*accountBlockTransactionVerifier).producer", C: "ne($tb.Address,types.PubKeyToAddress($tb.PublicKey)) @ F(types.IsEmbeddedAddress($tb.Address))"},
		{F: "verifier.(*accountBlockTransactionVerifier).signature", C: "ne(0,len($tb.PublicKey)) @ T(types.IsEmbeddedAddress($tb.Address))"},
		{F: "verifier.(*accountBlockTransactionVerifier).signature", C: "eq(0,len($tb.Signature)) @ F(types.IsEmbeddedAddress($tb.Address))"},
		{F: "verifier.(*accountBlockTransactionVerifier).signature", C: "ne(0,len($tb.Signature)) @ T(types.IsEmbeddedAddress($tb.Address))"},
		{F: "verifier.(*accountBlockTransactionVerifier).signature", C: "eq(0,len($tb.PublicKey)) @ F(types.IsEmbeddedAddress($tb.Address))"},
		{F: "verifier.(*accountBlockTransactionVerifier).signature", C: "ne(nil,wallet.VerifySignature($tb.PublicKey,$tb.Hash.Bytes(),$tb.Signature)#1) @ F(types.IsEmbeddedAddress($tb.Address))"},
		{F: "verifier.(*accountBlockTransactionVerifier).signature", C: "F(wallet.VerifySignature($tb.PublicKey,$tb.Hash.Bytes(),$tb.Signature)#0) @ F(types.IsEmbeddedAddress($tb.Address))"},
		{F: "verifier.(*accountBlockVerifier).all", C: "ne(nil,recv.version())"},
		{F: "verifier.(*accountBlockVerifier).all", C: "ne(nil,recv.chainIdentifier())"},
		{F: "verifier.(*accountBlockVerifier).all", C: "ne(nil,recv.blockType())"},
		{F: "verifier.(*accountBlockVerifier).all", C: "ne(nil,recv.amounts())"},
		{F: "verifier.(*accountBlockVerifier).all", C: "ne(nil,recv.pow())"},
		{F: "verifier.(*accountBlockVerifier).all", C: "ne(nil,recv.previous())"},
		{F: "verifier.(*accountBlockVerifier).all", C: "ne(nil,recv.momentumAcknowledged())"},
		{F: "verifier.(*accountBlockVerifier).all", C: "ne(nil,recv.fromHash())"},
		{F: "verifier.(*accountBlockVerifier).all", C: "ne(nil,recv.sequencer())"},
		{F: "verifier.(*accountBlockVerifier).amounts", C: "lt($b.Amount,0) @ T($b.IsSendBlock())"},
		{F: "verifier.(*accountBlockVerifier).amounts", C: "lt(255,$b.Amount.BitLen()) @ T($b.IsSendBlock())"},
		{F: "verifier.(*accountBlockVerifier).amounts", C: "F($b.FromBlockHash.IsZero()) @ T($b.IsSendBlock())"},
		{F: "verifier.(*accountBlockVerifier).amounts", C: "eq($b.TokenStandard,types.ZeroTokenStandard) @ T($b.IsSendBlock()) & lt(0,$b.Amount)"},
		{F: "verifier.(*accountBlockVerifier).amounts", C: "ne($b.TokenStandard,types.ZeroTokenStandard) @ F($b.IsSendBlock())"},
		{F: "verifier.(*accountBlockVerifier).amounts", C: "ne(0,$b.Amount) @ F($b.IsSendBlock()) & ne(nil,$b.Amount)"},
		{F: "verifier.(*accountBlockVerifier).amounts", C: "ne($b.ToAddress,types.ZeroAddress) @ F($b.IsSendBlock())"},
		{F: "verifier.(*accountBlockVerifier).amounts", C: "T($b.FromBlockHash.IsZero()) @ F($b.IsSendBlock())"},
		{F: "verifier.(*accountBlockVerifier).blockType", C: "eq(0,$b.BlockType)"},
		{F: "verifier.(*accountBlockVerifier).blockType", C: "eq(1,$b.BlockType)"},
		{F: "verifier.(*accountBlockVerifier).blockType", C: "F($b.IsReceiveBlock()) @ F($b.IsSendBlock())"},
		{F: "verifier.(*accountBlockVerifier).blockType", C: "ne(4,$b.BlockType) @ T(types.IsEmbeddedAddress($b.Address)) & ne(5,$b.BlockType)"},
		{F: "verifier.(*accountBlockVerifier).blockType", C: "ne(2,$b.BlockType) @ F(types.IsEmbeddedAddress($b.Address)) & ne(3,$b.BlockType)"},
		{F: "verifier.(*accountBlockVerifier).chainIdentifier", C: "eq(0,$b.ChainIdentifier)"},
		{F: "verifier.(*accountBlockVerifier).chainIdentifier", C: "ne($b.ChainIdentifier,recv.momentumStore.ChainIdentifier())"},
		{F: "verifier.(*accountBlockVerifier).fromHash", C: "ne(nil,$send#1) @ F($b.IsSendBlock())"},
		{F: "verifier.(*accountBlockVerifier).fromHash", C: "eq(nil,$send#0) @ F($b.IsSendBlock())"},
		{F: "verifier.(*accountBlockVerifier).fromHash", C: "T(recv.accountStore.IsReceived($b.FromBlockHash)) @ F($b.IsSendBlock())"},
		{F: "verifier.(*accountBlockVerifier).momentumAcknowledged", C: "ne(nil,recv.momentumStore.GetFrontierMomentum()#1)"},
		{F: "verifier.(*accountBlockVerifier).momentumAcknowledged", C: "ne($b.MomentumAcknowledged,recv.momentumStore.GetFrontierMomentum()#0.Identifier())"},
		{F: "verifier.(*accountBlockVerifier).momentumAcknowledged", C: "ne($b.DescendantBlocks[iter].MomentumAcknowledged,$b.MomentumAcknowledged) @ F(verifier.isBatched($b)) & T(verifier.isContractReceive($b))"},
		{F: "verifier.(*accountBlockVerifier).momentumAcknowledged", C: "ne(nil,recv.momentumStore.GetBlockConfirmationHeight($b.FromBlockHash)#1) @ F(verifier.isBatched($b)) & T(verifier.isContractReceive($b))"},
		{F: "verifier.(*accountBlockVerifier).momentumAcknowledged", C: "ne($b.MomentumAcknowledged.Height,recv.momentumStore.GetBlockConfirmationHeight($b.FromBlockHash)#0) @ F(verifier.isBatched($b)) & T(verifier.isContractReceive($b))"},
		{F: "verifier.(*accountBlockVerifier).momentumAcknowledged", C: "ne(nil,recv.accountStore.ByHeight($b.Previous().Height)#1) @ F(verifier.isBatched($b)) & F(verifier.isContractReceive($b)) & ne($b.Previous(),types.ZeroHashHeight)"},
		{F: "verifier.(*accountBlockVerifier).momentumAcknowledged", C: "lt($b.MomentumAcknowledged.Height,recv.accountStore.ByHeight($b.Previous().Height)#0.MomentumAcknowledged.Height) @ F(verifier.isBatched($b)) & F(verifier.isContractReceive($b)) & ne($b.Previous(),types.ZeroHashHeight)"},
		{F: "verifier.(*accountBlockVerifier).pow", C: "T(types.IsEmbeddedAddress($b.Address)) @ ne(0,$b.Difficulty)"},
		{F: "verifier.(*accountBlockVerifier).pow", C: "F(pow.CheckPoWNonce($b)) @ ne(0,$b.Difficulty)"},
		{F: "verifier.(*accountBlockVerifier).previous", C: "eq(0,$b.Height)"},
		{F: "verifier.(*accountBlockVerifier).previous", C: "F($b.PreviousHash.IsZero()) @ eq(1,$b.Height)"},
		{F: "verifier.(*accountBlockVerifier).previous", C: "T($b.PreviousHash.IsZero()) @ ne(1,$b.Height)"},
		{F: "verifier.(*accountBlockVerifier).previous", C: "ne(nil,recv.accountStore.Frontier()#1) @ F(types.IsEmbeddedAddress($b.Address)) & ne(1,$b.Height)"},
		{F: "verifier.(*accountBlockVerifier).previous", C: "eq(nil,recv.accountStore.Frontier()#0) @ F(types.IsEmbeddedAddress($b.Address)) & ne(1,$b.Height)"},
		{F: "verifier.(*accountBlockVerifier).previous", C: "ne(recv.accountStore.Frontier()#0.Identifier(),$b.Previous()) @ F(types.IsEmbeddedAddress($b.Address)) & ne(1,$b.Height)"},
		{F: "verifier.(*accountBlockVerifier).sequencer", C: "eq(nil,$front) @ T($b.IsReceiveBlock()) & T(types.IsEmbeddedAddress($b.Address))"},
		{F: "verifier.(*accountBlockVerifier).sequencer", C: "ne(nil,$send#1) @ T($b.IsReceiveBlock()) & T(types.IsEmbeddedAddress($b.Address))"},
		{F: "verifier.(*accountBlockVerifier).sequencer", C: "ne($front,$send#0.Header()) @ T($b.IsReceiveBlock()) & T(types.IsEmbeddedAddress($b.Address))"},
		{F: "verifier.(*accountBlockVerifier).version", C: "eq(0,$b.Version)"},
		{F: "verifier.(*accountBlockVerifier).version", C: "ne(1,$b.Version)"},
		{F: "verifier.(*accountVerifier).AccountBlock", C: "eq(4,a0.BlockType)"},
		{F: "verifier.(*accountVerifier).AccountBlock", C: "ne(nil,recv.getContext(a0)#2)"},
		{F: "verifier.(*accountVerifier).AccountBlockTransaction", C: "eq(4,a0.Block.BlockType)"},
		{F: "verifier.(*accountVerifier).AccountBlockTransaction", C: "ne(nil,recv.getContext(a0.Block)#2)"},
		{F: "verifier.(*accountVerifier).getContext", C: "eq(0,a0.Height)"},
		{F: "verifier.(*accountVerifier).getContext", C: "F(a0.PreviousHash.IsZero()) @ eq(1,a0.Height)"},
		{F: "verifier.(*accountVerifier).getContext", C: "T(a0.MomentumAcknowledged.IsZero())"},
		{F: "verifier.(*accountVerifier).getContext", C: "T(a0.PreviousHash.IsZero()) @ ne(1,a0.Height)"},
		{F: "verifier.(*accountVerifier).getContext", C: "eq(nil,recv.chain.GetMomentumStore(a0.MomentumAcknowledged))"},
		{F: "verifier.(*accountVerifier).getContext", C: "eq(nil,recv.chain.GetAccountStore(a0.Address,a0.Previous()))"},
		// supervisor / vm
		{F: "vm.(*Supervisor).ApplyBlock", C: "eq(4,a0.BlockType)"},
		{F: "vm.(*Supervisor).applyBlock", C: "ne(nil,recv.verifier.AccountBlock(a0))", Pre: []string{"vm.(*Supervisor).newBlockContext", "vm.(*VM).applyBlock", "vm.(*Supervisor).packBlock"}},
		{F: "vm.(*Supervisor).applyBlock", C: "ne(nil,vm.NewVM(recv.newBlockContext(a0)).applyBlock(a0))", Pre: []string{"vm.(*Supervisor).packBlock"}},
		{F: "vm.(*Supervisor).applyBlock", C: "ne(nil,recv.packBlock(recv.newBlockContext(a0),a0,a1)#1)"},
		{F: "vm.(*Supervisor).packBlock", C: "ne(a0.Changes()#1,nil)"},
		{F: "vm.(*Supervisor).packBlock", C: "ne(nil,recv.verifier.AccountBlockTransaction(new(nom.AccountBlockTransaction)))"},
		{F: "vm.(*VM).applyBlock", C: "ne(nil,vm.enoughPlasma(recv.context,a0))", Pre: []string{"vm.(*VM).applySend", "vm.(*VM).applyReceive", "vm.(*VM).generateEmbeddedReceive"}},
		{F: "vm.(*VM).applyBlock", C: "ne(5,a0.BlockType) @ ne(2,a0.BlockType) & ne(3,a0.BlockType) & ne(4,a0.BlockType)"},
		{F: "vm.(*VM).applyBlock", C: "ne(nil,$gen#2) @ ne(2,a0.BlockType) & ne(3,a0.BlockType) & ne(4,a0.BlockType)"},
		{F: "vm.(*VM).applyBlock", C: "ne(a0.ChangesHash,$gen#0.ChangesHash) @ ne(2,a0.BlockType) & ne(3,a0.BlockType) & ne(4,a0.BlockType)"},
		{F: "vm.(*VM).applyBlock", C: "ne(a0.Hash,$gen#0.ComputeHash()) @ ne(2,a0.BlockType) & ne(3,a0.BlockType) & ne(4,a0.BlockType)"},
		{F: "vm.(*VM).applySend", C: "ne($method#1,nil) @ ne(constants.ErrNotContractAddress,$method#1)", Pre: []string{".SubBalance"}},
		{F: "vm.(*VM).applySend", C: "ne($method#0.ValidateSendBlock(a0),nil) @ ne(constants.ErrNotContractAddress,$method#1)", Pre: []string{".SubBalance"}},
		{F: "vm.(*VM).applySend", C: "F(vm.enoughFunds(recv.context,a0))", Pre: []string{".SubBalance"}},
		{F: "vm.enoughFunds", C: "lt(a0.GetBalance(a1.TokenStandard)#0,a1.Amount) @ ne(a1.TokenStandard,types.ZeroTokenStandard)"},
	}
	for i := range rows {
		if rows[i].Why == "" {
			rows[i].Why = c03Why[rows[i].F]
		}
	}
	return rows
}

func init() {
	register(&propDef{
		ID: "C03",
		Explain: "Structural necessary conditions of 'only valid account blocks are accepted', decided on the SSA of the acceptance path: " +
			"(1) Supervisor.applyBlock reaches success only through verifier.AccountBlock → VM.applyBlock → packBlock → verifier.AccountBlockTransaction, with a deferred recover that turns panics into rejection; " +
			"(2) every `func() error` check method of the two verifier structs is wired into all() and its failure returns; " +
			"(3) each rejection promised by the statement is present as a normalised guard (relation over access paths plus enclosing branch context) whose reject edge reaches only failure exits; a deleted, weakened (e.g. > → >=), operand-swapped, exempted (new early return) or post-effect guard changes the normal form or the dominance and is reported; " +
			"(4) AccountBlockTransaction values are constructed only by Supervisor.packBlock, genesis and the pool's own rebuild; blocks enter the pool only with a Supervisor result.",
		NotDec: "that the conjunction of checks is sufficient for validity in every reachable ledger state; the single-field-corruption closure; cryptographic soundness of Ed25519 and of the hash.",
		Run:    runC03,
		Controls: []control{
			{Name: "drop-fromHash-wiring", File: "verifier/account_block.go", Old: "if err := abv.fromHash(); err != nil {\n\t\treturn err\n\t}", New: "if err := abv.fromHash(); err != nil {\n\t\t_ = err\n\t}", ExpectKeySub: "recv.fromHash()"},
			{Name: "weaken-bitlen", File: "verifier/account_block.go", Old: "abv.block.Amount.BitLen() > 255", New: "abv.block.Amount.BitLen() > 256", ExpectKeySub: "BitLen"},
			{Name: "negate-isreceived", File: "verifier/account_block.go", Old: "if status {\n\t\treturn ErrABFromBlockAlreadyReceived", New: "if !status {\n\t\treturn ErrABFromBlockAlreadyReceived", ExpectKeySub: "IsReceived"},
			{Name: "funds-le", File: "vm/vm.go", Old: "balance.Cmp(block.Amount) == -1", New: "balance.Cmp(block.Amount) == 1", ExpectKeySub: "GetBalance"},
			{Name: "sig-over-wrong-message", File: "verifier/account_block.go", Old: "wallet.VerifySignature(block.PublicKey, block.Hash.Bytes(), block.Signature)", New: "wallet.VerifySignature(block.PublicKey, block.PreviousHash.Bytes(), block.Signature)", ExpectKeySub: "VerifySignature"},
			{Name: "exempt-height-2", File: "verifier/account_block.go", Old: "\t// don't check previous on contract\n", New: "\tif abv.block.Height == 2 {\n\t\treturn nil\n\t}\n", ExpectKeySub: "Frontier()#0.Identifier()"},
			{Name: "subbalance-before-funds", File: "vm/vm.go", Old: "\t// affect balance\n\tif !enoughFunds(vm.context, block) {\n\t\treturn constants.ErrInsufficientBalance\n\t}\n\n\tvm.context.SubBalance(&block.TokenStandard, block.Amount)\n", New: "\tvm.context.SubBalance(&block.TokenStandard, block.Amount)\n\tif !enoughFunds(vm.context, block) {\n\t\treturn constants.ErrInsufficientBalance\n\t}\n", ExpectKeySub: "enoughFunds"},
		},
	})
}

func runC03(r *Run) {
	descendantHashBinding(r)
	r.CacheInventory([]string{"verifier", "vm", "vm/vm_context", "chain", "chain/account", "chain/momentum"}, cacheTriage, "a verification verdict memoised under a key that does not pin the whole block (its claimed hash, its height) lets a different block inherit it")
	r.Alias("$b", "recv.block")
	r.Alias("$tb", "recv.transaction.Block")
	r.Alias("$send", "recv.momentumStore.GetAccountBlockByHash($b.FromBlockHash)")
	r.Alias("$front", "recv.accountStore.SequencerFront(recv.momentumStore.GetAccountMailbox($b.Address))")
	r.Alias("$gen", "recv.generateEmbeddedReceive(a0.FromBlockHash)")
	r.Alias("$method", "embedded.GetEmbeddedMethod(recv.context,a0.ToAddress,a0.Data)")
	r.Guards(c03Rows())

	// the views the checks and the execution run against, and the pool they are layered on
	contextProvenanceRules(r)
	poolInvalidationRules(r)

	// receiver binding under the height gate (D15 is about which height the gate reads; the guard itself must exist)
	r.Guard("verifier.(*accountBlockVerifier).fromHash",
		r.X("le(verifier.ReceiverMismatchEnforcementHeight,recv.frontierStore.Identifier().Height) @ F($b.IsSendBlock()) & ne($b.Address,$send#0.ToAddress)"),
		"from the enforcement height on a receive must be made by the account the send was addressed to")

	// path shape
	acceptancePathRules(r)
	r.DefersRecover("vm.(*Supervisor).applyBlock", "panics inside verifier/VM (nil amount, nil lookup) must reject, not crash")
	r.Has("verifier.(*accountBlockTransactionVerifier).descendantBlocks", "store new(verifier.accountBlockVerifier).block = $tb.DescendantBlocks[iter]", "each descendant is the block checked")
	r.Has("verifier.(*accountVerifier).AccountBlock", "store new(verifier.accountBlockVerifier).block = a0", "the verified block is the submitted one")
	r.Has("verifier.(*accountVerifier).AccountBlock", "store new(verifier.accountBlockVerifier).accountStore = recv.getContext(a0)#0", "checks run against the predecessor's account state")
	r.Has("verifier.(*accountVerifier).AccountBlock", "store new(verifier.accountBlockVerifier).momentumStore = recv.getContext(a0)#1", "checks run against the acknowledged momentum's view")
	r.Has("verifier.(*accountVerifier).AccountBlockTransaction", "store new(verifier.accountBlockTransactionVerifier).transaction = a0", "the verified transaction is the submitted one")
	r.Has("vm.(*Supervisor).packBlock", "store new(nom.AccountBlockTransaction).Block = a1", "the transaction wraps the verified block")
	r.Has("vm.(*Supervisor).packBlock", "store new(nom.AccountBlockTransaction).Changes = a0.Changes()#0", "the transaction carries the changes of the context the block was executed in")

	// K5: checklist completeness
	r.AllWired("verifier", "accountBlockVerifier", "all", "a check method that exists but is not called by all() is a check that never runs")
	r.AllWired("verifier", "accountBlockTransactionVerifier", "all", "a check method that exists but is not called by all() is a check that never runs")

	// K1: constructors of transactions and feeders of the pool
	r.WhoConstructs("chain/nom", "AccountBlockTransaction", []string{"vm.(*Supervisor).packBlock", "chain/genesis.wrap", "chain.(*accountPool).rebuild", "chain/nom.*"},
		"a transaction object is proof of verification for the pool: only the supervisor (after verification), genesis and the pool's own replay may build one")
}

// acceptancePathRules: no block becomes a transaction without passing, in order, the block verifier,
// the VM and the transaction verifier (shared by C03, C04, C01).
func acceptancePathRules(r *Run) {
	r.MustPass("vm.(*Supervisor).applyBlock", ".AccountBlock", "no block is executed or packed without passing the block verifier")
	r.MustPass("vm.(*Supervisor).applyBlock", "vm.(*VM).applyBlock", "no transaction is produced without executing the block against its context")
	r.MustPass("vm.(*Supervisor).applyBlock", "vm.(*Supervisor).packBlock", "the transaction handed out is the verified one")
	r.MustPass("vm.(*Supervisor).packBlock", ".AccountBlockTransaction", "hash/signature/producer/descendant checks run on every transaction")
	r.MustPass("vm.(*Supervisor).ApplyBlock", "vm.(*Supervisor).applyBlock", "ApplyBlock has no path around applyBlock")
}
