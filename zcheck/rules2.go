package main

import (
	"fmt"
	"go/types"
	"sort"
	"strings"

	"golang.org/x/tools/go/ssa"
)

// callsRecover: the function (a deferred closure) calls recover() and has a path that returns
// normally afterwards (i.e. it swallows the panic rather than re-panicking on every path).
func callsRecover(f *ssa.Function) (recovers, swallows bool) {
	if f == nil || f.Blocks == nil {
		return false, false
	}
	for _, b := range f.Blocks {
		for _, in := range b.Instrs {
			if c, ok := in.(*ssa.Call); ok {
				if bi, ok := c.Call.Value.(*ssa.Builtin); ok && bi.Name() == "recover" {
					recovers = true
				}
			}
		}
	}
	if !recovers {
		return false, false
	}
	// swallows: some Return is reachable on the recovered (non-nil) branch — approximate by:
	// the function has a Return not dominated by a Panic; we accept any Return in a block that
	// is reachable from the block where recover() != nil holds.
	for _, b := range f.Blocks {
		if _, ok := lastInstr(b).(*ssa.Return); ok {
			swallows = true
		}
	}
	// if every path through the non-nil branch panics, it does not swallow
	for _, b := range f.Blocks {
		ifi, ok := lastInstr(b).(*ssa.If)
		if !ok {
			continue
		}
		bo, ok := ifi.Cond.(*ssa.BinOp)
		if !ok {
			continue
		}
		isRec := func(v ssa.Value) bool {
			c, ok := v.(*ssa.Call)
			if !ok {
				return false
			}
			bi, ok := c.Call.Value.(*ssa.Builtin)
			return ok && bi.Name() == "recover"
		}
		if !isRec(bo.X) && !isRec(bo.Y) {
			continue
		}
		nonNil := b.Succs[0]
		if bo.Op.String() == "==" {
			nonNil = b.Succs[1]
		}
		// does nonNil reach a Return?
		seen := map[*ssa.BasicBlock]bool{nonNil: true}
		st := []*ssa.BasicBlock{nonNil}
		reach := false
		for len(st) > 0 {
			x := st[len(st)-1]
			st = st[:len(st)-1]
			if _, ok := lastInstr(x).(*ssa.Return); ok {
				reach = true
			}
			for _, s := range x.Succs {
				if !seen[s] {
					seen[s] = true
					st = append(st, s)
				}
			}
		}
		swallows = reach
	}
	return
}

// deferredRecover finds a defer in fn's entry block whose function recovers and swallows.
func (p *Prog) deferredRecover(fn *ssa.Function) *ssa.Defer {
	if fn == nil || len(fn.Blocks) == 0 {
		return nil
	}
	for _, b := range fn.Blocks {
		for _, in := range b.Instrs {
			d, ok := in.(*ssa.Defer)
			if !ok {
				continue
			}
			var callee *ssa.Function
			switch v := d.Call.Value.(type) {
			case *ssa.MakeClosure:
				callee, _ = v.Fn.(*ssa.Function)
			case *ssa.Function:
				callee = v
			}
			if rec, sw := callsRecover(callee); rec && sw {
				return d
			}
		}
	}
	return nil
}

// DefersRecover: fn defers a recovering closure before any call that can panic (entry block, before
// every other call instruction).
func (r *Run) DefersRecover(fnName, why string) {
	fn := r.fn(fnName)
	if fn == nil {
		return
	}
	file, line := r.P.FnPos(fn)
	d := r.P.deferredRecover(fn)
	if d == nil {
		r.viol("K8-recover", fnName, "defers recover()", fnName+" no longer defers a closure that recovers and swallows panics", why, file, line)
		return
	}
	// every call in fn must come after the defer
	for _, b := range fn.Blocks {
		for _, in := range b.Instrs {
			ci, ok := in.(ssa.CallInstruction)
			if !ok || in == ssa.Instruction(d) {
				continue
			}
			if _, isB := ci.Common().Value.(*ssa.Builtin); isB {
				continue
			}
			if b == d.Block() && instrIndex(in) < instrIndex(d) {
				f2, l2 := r.P.Pos(in.Pos())
				r.viol("K8-recover", fnName, "defers recover()", fmt.Sprintf("call at %s:%d executes before the recovering defer is installed", f2, l2), why, f2, l2)
				return
			}
			if b != d.Block() && !d.Block().Dominates(b) {
				f2, l2 := r.P.Pos(in.Pos())
				r.viol("K8-recover", fnName, "defers recover()", fmt.Sprintf("call at %s:%d is not dominated by the recovering defer", f2, l2), why, f2, l2)
				return
			}
		}
	}
	f2, l2 := r.P.Pos(d.Pos())
	r.pass("K8-recover", fnName, "defers recover()", "recovering defer installed before every call", why, f2, l2)
}

// namedType looks up a named type in a module package.
func (r *Run) namedType(pkg, name string) *types.Named {
	pk := r.P.Pkg(pkg)
	if pk == nil {
		return nil
	}
	o := pk.Types.Scope().Lookup(name)
	if o == nil {
		return nil
	}
	nt, _ := o.Type().(*types.Named)
	return nt
}

// AllWired: every method of *T with signature func() error, other than `all`, is called by all()
// and its failure makes all() fail.
func (r *Run) AllWired(pkg, typ, all, why string) {
	nt := r.namedType(pkg, typ)
	allName := fmt.Sprintf("%s.(*%s).%s", pkg, typ, all)
	allFn := r.fn(allName)
	if nt == nil || allFn == nil {
		if nt == nil {
			r.viol("unresolved-anchor", allName, "type "+typ, "type not found", why, "", 0)
		}
		return
	}
	n := 0
	for i := 0; i < nt.NumMethods(); i++ {
		m := nt.Method(i)
		if m.Name() == all {
			continue
		}
		sig := m.Type().(*types.Signature)
		if sig.Params().Len() != 0 || sig.Results().Len() != 1 || !isErrorType(sig.Results().At(0).Type()) {
			continue
		}
		n++
		mName := fmt.Sprintf("%s.(*%s).%s", pkg, typ, m.Name())
		sites := r.P.FindCalls(allFn, mName, false)
		file, line := r.P.Pos(m.Pos())
		if len(sites) == 0 {
			r.viol("K5-checklist", allName, "wires "+m.Name(), fmt.Sprintf("check method %s exists but %s does not call it", mName, allName), why, file, line)
			continue
		}
		okp := false
		for _, cs := range sites {
			if r.failurePropagates(allFn, cs, r.P.Fn(mName)) {
				okp = true
			}
		}
		if !okp {
			r.viol("K5-checklist", allName, "wires "+m.Name(), fmt.Sprintf("%s calls %s but ignores its error", allName, mName), why, sites[0].File, sites[0].Line)
			continue
		}
		r.pass("K5-checklist", allName, "wires "+m.Name(), "called and failure propagates", why, sites[0].File, sites[0].Line)
	}
	if n == 0 {
		r.viol("vacuous-rule", allName, "checklist", "no check methods found on "+typ, why, "", 0)
	}
}

// WhoConstructs: allocations (composite literals) of the named struct type occur only in allowed functions.
func (r *Run) WhoConstructs(pkg, typ string, allowed []string, why string) {
	nt := r.namedType(pkg, typ)
	if nt == nil {
		r.viol("unresolved-anchor", "", "type "+pkg+"."+typ, "type not found", why, "", 0)
		return
	}
	construct := "constructs " + pkg + "." + typ
	found := 0
	var names []string
	sites := map[string]ssa.Instruction{}
	for _, name := range r.P.FuncNames() {
		fn := r.P.Fn(name)
		if fn.Blocks == nil || isScaffolding(name) {
			continue
		}
		for _, b := range fn.Blocks {
			for _, in := range b.Instrs {
				a, ok := in.(*ssa.Alloc)
				if !ok {
					continue
				}
				et := a.Type().(*types.Pointer).Elem()
				if types.Identical(et, nt) {
					// only count allocations that are initialised field by field (composite literal)
					// or stored whole; a plain `var x T` that is only decoded into also counts.
					if sites[name] == nil {
						sites[name] = in
						names = append(names, name)
					}
				}
			}
		}
	}
	sort.Strings(names)
	for _, n := range names {
		file, line := r.P.Pos(sites[n].Pos())
		if matchAny(n, allowed) {
			found++
			r.pass("K1-who-constructs", n, construct, "allowed constructor", why, file, line)
		} else {
			r.viol("K1-who-constructs", n, construct, fmt.Sprintf("%s builds a %s.%s but is not among the allowed constructors (%s)", n, pkg, typ, strings.Join(allowed, ", ")), why, file, line)
		}
	}
	if found == 0 {
		r.viol("vacuous-rule", "", construct, "no constructor found at all", why, "", 0)
	}
}
