package main

import (
	"fmt"
	"go/token"
	"go/types"
	"sort"
	"strings"

	"golang.org/x/tools/go/ssa"
)

// callsRecover: the function (a deferred closure) calls recover() and has a path that returns
// normally afterwards (i.e. it swallows the panic rather than re-panicking on every path).
func callsRecover(f *ssa.Function) (recovers, swallows bool) {
	if f == nil || f.Blocks == nil {
		return false, false
	}
	for _, b := range f.Blocks {
		for _, in := range b.Instrs {
			if c, ok := in.(*ssa.Call); ok {
				if bi, ok := c.Call.Value.(*ssa.Builtin); ok && bi.Name() == "recover" {
					recovers = true
				}
			}
		}
	}
	if !recovers {
		return false, false
	}
	// swallows: some Return is reachable on the recovered (non-nil) branch — approximate by:
	// the function has a Return not dominated by a Panic; we accept any Return in a block that
	// is reachable from the block where recover() != nil holds.
	for _, b := range f.Blocks {
		if _, ok := lastInstr(b).(*ssa.Return); ok {
			swallows = true
		}
	}
	// if every path through the non-nil branch panics, it does not swallow
	for _, b := range f.Blocks {
		ifi, ok := lastInstr(b).(*ssa.If)
		if !ok {
			continue
		}
		bo, ok := ifi.Cond.(*ssa.BinOp)
		if !ok {
			continue
		}
		isRec := func(v ssa.Value) bool {
			c, ok := v.(*ssa.Call)
			if !ok {
				return false
			}
			bi, ok := c.Call.Value.(*ssa.Builtin)
			return ok && bi.Name() == "recover"
		}
		if !isRec(bo.X) && !isRec(bo.Y) {
			continue
		}
		nonNil := b.Succs[0]
		if bo.Op.String() == "==" {
			nonNil = b.Succs[1]
		}
		// does nonNil reach a Return?
		seen := map[*ssa.BasicBlock]bool{nonNil: true}
		st := []*ssa.BasicBlock{nonNil}
		reach := false
		for len(st) > 0 {
			x := st[len(st)-1]
			st = st[:len(st)-1]
			if _, ok := lastInstr(x).(*ssa.Return); ok {
				reach = true
			}
			for _, s := range x.Succs {
				if !seen[s] {
					seen[s] = true
					st = append(st, s)
				}
			}
		}
		swallows = reach
	}
	return
}

// deferredRecover finds a defer in fn's entry block whose function recovers and swallows.
func (p *Prog) deferredRecover(fn *ssa.Function) *ssa.Defer {
	if fn == nil || len(fn.Blocks) == 0 {
		return nil
	}
	for _, b := range fn.Blocks {
		for _, in := range b.Instrs {
			d, ok := in.(*ssa.Defer)
			if !ok {
				continue
			}
			var callee *ssa.Function
			switch v := d.Call.Value.(type) {
			case *ssa.MakeClosure:
				callee, _ = v.Fn.(*ssa.Function)
			case *ssa.Function:
				callee = v
			}
			if rec, sw := callsRecover(callee); rec && sw {
				return d
			}
		}
	}
	return nil
}

// DefersRecover: fn defers a recovering closure before any call that can panic (entry block, before
// every other call instruction).
func (r *Run) DefersRecover(fnName, why string) {
	fn := r.fn(fnName)
	if fn == nil {
		return
	}
	file, line := r.P.FnPos(fn)
	d := r.P.deferredRecover(fn)
	if d == nil {
		r.viol("K8-recover", fnName, "defers recover()", fnName+" no longer defers a closure that recovers and swallows panics", why, file, line)
		return
	}
	// every call in fn must come after the defer
	for _, b := range fn.Blocks {
		for _, in := range b.Instrs {
			ci, ok := in.(ssa.CallInstruction)
			if !ok || in == ssa.Instruction(d) {
				continue
			}
			if _, isB := ci.Common().Value.(*ssa.Builtin); isB {
				continue
			}
			if b == d.Block() && instrIndex(in) < instrIndex(d) {
				f2, l2 := r.P.Pos(in.Pos())
				r.viol("K8-recover", fnName, "defers recover()", fmt.Sprintf("call at %s:%d executes before the recovering defer is installed", f2, l2), why, f2, l2)
				return
			}
			if b != d.Block() && !d.Block().Dominates(b) {
				f2, l2 := r.P.Pos(in.Pos())
				r.viol("K8-recover", fnName, "defers recover()", fmt.Sprintf("call at %s:%d is not dominated by the recovering defer", f2, l2), why, f2, l2)
				return
			}
		}
	}
	f2, l2 := r.P.Pos(d.Pos())
	r.pass("K8-recover", fnName, "defers recover()", "recovering defer installed before every call", why, f2, l2)
}

// namedType looks up a named type in a module package.
func (r *Run) namedType(pkg, name string) *types.Named {
	pk := r.P.Pkg(pkg)
	if pk == nil {
		return nil
	}
	o := pk.Types.Scope().Lookup(name)
	if o == nil {
		return nil
	}
	nt, _ := o.Type().(*types.Named)
	return nt
}

// AllWired: every method of *T with signature func() error, other than `all`, is called by all()
// and its failure makes all() fail.
func (r *Run) AllWired(pkg, typ, all, why string) {
	nt := r.namedType(pkg, typ)
	allName := fmt.Sprintf("%s.(*%s).%s", pkg, typ, all)
	allFn := r.fn(allName)
	if nt == nil || allFn == nil {
		if nt == nil {
			r.viol("unresolved-anchor", allName, "type "+typ, "type not found", why, "", 0)
		}
		return
	}
	n := 0
	type chk struct {
		name, full string
		pos        token.Pos
	}
	var checks []chk
	for i := 0; i < nt.NumMethods(); i++ {
		m := nt.Method(i)
		if m.Name() == all {
			continue
		}
		sig := m.Type().(*types.Signature)
		if sig.Results().Len() != 1 || !isErrorType(sig.Results().At(0).Type()) {
			continue
		}
		n++
		checks = append(checks, chk{m.Name(), fmt.Sprintf("%s.(*%s).%s", pkg, typ, m.Name()), m.Pos()})
	}
	// wired: called with its failure propagating from `all`, or from a check that is itself wired
	// (a check split into a helper of the same type stays wired through its caller)
	wiredAt := map[string]*CallSite{}
	ignoredAt := map[string]*CallSite{}
	callers := []*ssa.Function{allFn}
	seen := map[*ssa.Function]bool{allFn: true}
	for len(callers) > 0 {
		from := callers[0]
		callers = callers[1:]
		for _, c := range checks {
			if wiredAt[c.full] != nil {
				continue
			}
			for _, cs := range r.P.FindCalls(from, c.full, false) {
				if r.failurePropagates(from, cs, r.P.Fn(c.full)) {
					wiredAt[c.full] = cs
					if f := r.P.Fn(c.full); f != nil && !seen[f] {
						seen[f] = true
						callers = append(callers, f)
					}
					break
				}
				ignoredAt[c.full] = cs
			}
		}
	}
	for _, c := range checks {
		file, line := r.P.Pos(c.pos)
		if cs := wiredAt[c.full]; cs != nil {
			r.pass("K5-checklist", allName, "wires "+c.name, "called and failure propagates", why, cs.File, cs.Line)
			continue
		}
		if cs := ignoredAt[c.full]; cs != nil {
			r.viol("K5-checklist", allName, "wires "+c.name, fmt.Sprintf("%s is called at %s:%d but its error is ignored", c.full, cs.File, cs.Line), why, cs.File, cs.Line)
			continue
		}
		r.viol("K5-checklist", allName, "wires "+c.name, fmt.Sprintf("check method %s exists but %s does not call it (directly or through another wired check)", c.full, allName), why, file, line)
	}
	if n == 0 {
		r.viol("vacuous-rule", allName, "checklist", "no check methods found on "+typ, why, "", 0)
	}
}

// WhoConstructs: allocations (composite literals) of the named struct type occur only in allowed functions.
func (r *Run) WhoConstructs(pkg, typ string, allowed []string, why string) {
	nt := r.namedType(pkg, typ)
	if nt == nil {
		r.viol("unresolved-anchor", "", "type "+pkg+"."+typ, "type not found", why, "", 0)
		return
	}
	construct := "constructs " + pkg + "." + typ
	found := 0
	var names []string
	sites := map[string]ssa.Instruction{}
	for _, name := range r.P.FuncNames() {
		fn := r.P.Fn(name)
		if fn.Blocks == nil || isScaffolding(name) {
			continue
		}
		for _, b := range fn.Blocks {
			for _, in := range b.Instrs {
				a, ok := in.(*ssa.Alloc)
				if !ok {
					continue
				}
				et := a.Type().(*types.Pointer).Elem()
				if types.Identical(et, nt) {
					// only count allocations that are initialised field by field (composite literal)
					// or stored whole; a plain `var x T` that is only decoded into also counts.
					if sites[name] == nil {
						sites[name] = in
						names = append(names, name)
					}
				}
			}
		}
	}
	sort.Strings(names)
	for _, n := range names {
		file, line := r.P.Pos(sites[n].Pos())
		if matchAny(n, allowed) {
			found++
			r.pass("K1-who-constructs", n, construct, "allowed constructor", why, file, line)
		} else {
			r.viol("K1-who-constructs", n, construct, fmt.Sprintf("%s builds a %s.%s but is not among the allowed constructors (%s)", n, pkg, typ, strings.Join(allowed, ", ")), why, file, line)
		}
	}
	if found == 0 {
		r.viol("vacuous-rule", "", construct, "no constructor found at all", why, "", 0)
	}
}

// succReachesExitAvoiding: from block start, is some exit (Return/Panic) reachable without passing
// a block that contains a call matching one of targets?
func (r *Run) exitReachableAvoidingCalls(fn *ssa.Function, start *ssa.BasicBlock, targets []string) (*ssa.BasicBlock, bool) {
	has := map[*ssa.BasicBlock]bool{}
	for _, cs := range r.P.Calls(fn, false) {
		for _, t := range targets {
			if calleeMatches(cs, t) {
				has[cs.Instr.Block()] = true
			}
		}
	}
	seen := map[*ssa.BasicBlock]bool{}
	var st []*ssa.BasicBlock
	if !has[start] {
		st = append(st, start)
		seen[start] = true
	}
	for len(st) > 0 {
		b := st[len(st)-1]
		st = st[:len(st)-1]
		if _, ok := lastInstr(b).(*ssa.Return); ok {
			return b, true
		}
		for _, s := range b.Succs {
			if !seen[s] && !has[s] {
				seen[s] = true
				st = append(st, s)
			}
		}
	}
	return nil, false
}

// OnErrorMustCall: in fn, whenever a call matching `match` returns a non-nil error, every path to
// a return passes through a call matching one of targets ("|" separated).
func (r *Run) OnErrorMustCall(fnName, match, targets, why string) {
	fn := r.fn(fnName)
	if fn == nil {
		return
	}
	file, line := r.P.FnPos(fn)
	construct := "error of " + match + " ⇒ " + targets
	sites := r.P.FindCalls(fn, match, false)
	if len(sites) == 0 {
		r.viol("K2-on-error", fnName, construct, fnName+" no longer calls "+match, why, file, line)
		return
	}
	tl := strings.Split(targets, "|")
	for _, cs := range sites {
		from, okSucc := r.P.nilErrEdge(cs.Instr)
		if from == nil {
			r.viol("K2-on-error", fnName, construct, fmt.Sprintf("the error of %s at %s:%d is not tested against nil", match, cs.File, cs.Line), why, cs.File, cs.Line)
			return
		}
		var errSucc *ssa.BasicBlock
		for _, s := range from.Succs {
			if s != okSucc {
				errSucc = s
			}
		}
		if b, bad := r.exitReachableAvoidingCalls(fn, errSucc, tl); bad {
			f2, l2 := r.P.Pos(lastInstr(b).Pos())
			r.viol("K2-on-error", fnName, construct, fmt.Sprintf("after %s fails (%s:%d) the return at %s:%d is reachable without calling %s", match, cs.File, cs.Line, f2, l2, targets), why, f2, l2)
			return
		}
	}
	r.pass("K2-on-error", fnName, construct, fmt.Sprintf("%d site(s): every failure path passes %s", len(sites), targets), why, sites[0].File, sites[0].Line)
}

// OnCondMustCall: in fn there is a branch with canonical condition cond (or its negation) and from
// the edge on which cond holds every path to a return passes a call matching targets.
func (r *Run) OnCondMustCall(fnName, cond, targets, why string) {
	fn := r.fn(fnName)
	if fn == nil {
		return
	}
	cond = r.X(cond)
	file, line := r.P.FnPos(fn)
	construct := "when " + cond + " ⇒ " + targets
	fi := r.P.Info(fn)
	tl := strings.Split(targets, "|")
	for _, g := range fi.guards {
		var start *ssa.BasicBlock
		if g.Cond.String() == cond {
			start = g.Block.Succs[0]
		} else if g.Cond.Negate().String() == cond {
			start = g.Block.Succs[1]
		} else {
			continue
		}
		if b, bad := r.exitReachableAvoidingCalls(fn, start, tl); bad {
			f2, l2 := r.P.Pos(lastInstr(b).Pos())
			r.viol("K2-on-cond", fnName, construct, fmt.Sprintf("when %s holds (%s:%d) the return at %s:%d is reachable without calling %s", cond, g.File, g.Line, f2, l2, targets), why, f2, l2)
			return
		}
		r.pass("K2-on-cond", fnName, construct, "every path from that edge passes "+targets, why, g.File, g.Line)
		return
	}
	// the branch may have moved, with its block, into a helper that is new relative to the reviewed
	// tree: the same condition in the caller's terms, and the same obligation inside the helper
	for _, cs := range r.newHelperSites(fn) {
		h := cs.Instr.Common().StaticCallee()
		hasRecv := h.Signature.Recv() != nil
		for _, g := range r.P.Info(h).guards {
			c := g.Cond.Subst(cs.Path.Args, hasRecv)
			var start *ssa.BasicBlock
			if c.String() == cond {
				start = g.Block.Succs[0]
			} else if c.Negate().String() == cond {
				start = g.Block.Succs[1]
			} else {
				continue
			}
			if b, bad := r.exitReachableAvoidingCalls(h, start, tl); bad {
				f2, l2 := r.P.Pos(lastInstr(b).Pos())
				r.viol("K2-on-cond", fnName, construct, fmt.Sprintf("when %s holds (%s:%d, in new helper %s) the return at %s:%d is reachable without calling %s", cond, g.File, g.Line, h.Name(), f2, l2, targets), why, f2, l2)
				return
			}
			r.pass("K2-on-cond", fnName, construct, "in new helper "+h.Name()+": every path from that edge passes "+targets, why, g.File, g.Line)
			return
		}
	}
	r.viol("K2-on-cond", fnName, construct, fnName+" no longer branches on "+cond, why, file, line)
}

// newHelperSites: the calls in fn of helpers that are new relative to the reviewed tree.
func (r *Run) newHelperSites(fn *ssa.Function) []*CallSite {
	if knownFuncs == nil {
		return nil
	}
	env := r.P.Env(fn)
	var out []*CallSite
	for _, cs := range r.P.Calls(fn, false) {
		if cs.Instr != nil && env.isNewHelper(cs.Instr.Common()) {
			out = append(out, cs)
		}
	}
	return out
}

// MustPassAny: every success exit passes a successful call to at least one of the matchers.
func (r *Run) MustPassAny(fnName string, matches []string, why string) {
	fn := r.fn(fnName)
	if fn == nil {
		return
	}
	file, line := r.P.FnPos(fn)
	construct := "success only through " + strings.Join(matches, " | ")
	fi := r.P.Info(fn)
	type edge struct{ a, b *ssa.BasicBlock }
	cutE := map[edge]bool{}
	cutB := map[*ssa.BasicBlock]bool{}
	n := 0
	for _, m := range matches {
		for _, cs := range r.P.FindCalls(fn, m, false) {
			n++
			from, okSucc := r.P.nilErrEdge(cs.Instr)
			if from != nil {
				cutE[edge{from, okSucc}] = true
			} else {
				cutB[cs.Instr.Block()] = true
			}
		}
	}
	if n == 0 {
		r.viol("K2-must-pass", fnName, construct, "none of the calls is present", why, file, line)
		return
	}
	reach := reachableAvoiding(fn, func(a, b *ssa.BasicBlock) bool { return cutE[edge{a, b}] }, func(b *ssa.BasicBlock) bool { return cutB[b] })
	for b := range fi.okBlock {
		if reach[b] {
			f2, l2 := r.P.Pos(lastInstr(b).Pos())
			r.viol("K2-must-pass", fnName, construct, fmt.Sprintf("the success return at %s:%d is reachable without any of %s", f2, l2, strings.Join(matches, ", ")), why, f2, l2)
			return
		}
	}
	r.pass("K2-must-pass", fnName, construct, fmt.Sprintf("%d call site(s)", n), why, file, line)
}

// FieldWriters: functions that store to field f of struct T, or call a mutating *big.Int method on
// a receiver loaded from that field, must be in the allowed set.
func (r *Run) FieldWriters(pkg, typ, field string, allowed []string, why string) {
	nt := r.namedType(pkg, typ)
	if nt == nil {
		r.viol("unresolved-anchor", "", "type "+pkg+"."+typ, "type not found", why, "", 0)
		return
	}
	st, ok := nt.Underlying().(*types.Struct)
	fidx := -1
	if ok {
		for i := 0; i < st.NumFields(); i++ {
			if st.Field(i).Name() == field {
				fidx = i
			}
		}
	}
	if fidx < 0 {
		r.viol("unresolved-anchor", "", "field "+typ+"."+field, "field not found", why, "", 0)
		return
	}
	construct := "writes " + typ + "." + field
	isField := func(v ssa.Value) bool {
		fa, ok := v.(*ssa.FieldAddr)
		if !ok || fa.Field != fidx {
			return false
		}
		pt, ok := fa.X.Type().Underlying().(*types.Pointer)
		return ok && types.Identical(pt.Elem(), nt)
	}
	mutators := map[string]bool{"Add": true, "Sub": true, "Mul": true, "Quo": true, "Div": true, "Set": true, "SetBytes": true, "SetInt64": true, "SetUint64": true, "SetString": true, "Neg": true, "Mod": true, "Exp": true, "Lsh": true, "Rsh": true}
	found := 0
	for _, name := range r.P.FuncNames() {
		fn := r.P.Fn(name)
		if fn.Blocks == nil || isScaffolding(name) {
			continue
		}
		var site ssa.Instruction
		for _, b := range fn.Blocks {
			for _, in := range b.Instrs {
				switch x := in.(type) {
				case *ssa.Store:
					if isField(x.Addr) {
						site = in
					}
				case *ssa.Call:
					f := x.Call.StaticCallee()
					if f != nil && f.Signature.Recv() != nil && strings.HasPrefix(f.String(), "(*math/big.Int).") && mutators[f.Name()] && len(x.Call.Args) > 0 {
						if u, ok := x.Call.Args[0].(*ssa.UnOp); ok && isField(u.X) {
							site = in
						}
					}
				}
			}
		}
		if site == nil {
			continue
		}
		file, line := r.P.Pos(site.Pos())
		if matchAny(name, allowed) {
			found++
			r.pass("K1-who-may-write", name, construct, "allowed writer", why, file, line)
		} else {
			r.viol("K1-who-may-write", name, construct, fmt.Sprintf("%s writes %s.%s but is not among the allowed writers", name, typ, field), why, file, line)
		}
	}
	if found == 0 {
		r.viol("vacuous-rule", "", construct, "no writer found at all", why, "", 0)
	}
}

// CallCount: fn contains exactly n call sites matching match.
func (r *Run) CallCount(fnName, match string, n int, why string) {
	fn := r.fn(fnName)
	if fn == nil {
		return
	}
	file, line := r.P.FnPos(fn)
	sites := r.P.FindCalls(fn, match, true)
	construct := fmt.Sprintf("exactly %d× %s", n, match)
	if len(sites) != n {
		r.viol("K2-call-count", fnName, construct, fmt.Sprintf("%s has %d call sites of %s, expected %d", fnName, len(sites), match, n), why, file, line)
		return
	}
	r.pass("K2-call-count", fnName, construct, "", why, file, line)
}

// FirstEffect: a call matching match is in the entry block and no other call precedes it.
func (r *Run) FirstEffect(fnName, match, why string) {
	fn := r.fn(fnName)
	if fn == nil {
		return
	}
	file, line := r.P.FnPos(fn)
	construct := match + " is the first effect"
	for _, in := range fn.Blocks[0].Instrs {
		ci, ok := in.(ssa.CallInstruction)
		if !ok {
			continue
		}
		full, bare := r.P.calleeName(ci.Common())
		cs := &CallSite{Instr: ci, Callee: full, Method: bare, Path: r.P.Env(fn).callPath(ci.Common())}
		if calleeMatches(cs, match) {
			f2, l2 := r.P.Pos(ci.Pos())
			r.pass("K2-first-effect", fnName, construct, "", why, f2, l2)
			return
		}
		if _, isB := ci.Common().Value.(*ssa.Builtin); isB {
			continue
		}
		f2, l2 := r.P.Pos(ci.Pos())
		r.viol("K2-first-effect", fnName, construct, fmt.Sprintf("the call at %s:%d (%s) precedes %s", f2, l2, full, match), why, f2, l2)
		return
	}
	r.viol("K2-first-effect", fnName, construct, match+" is not called in the entry block of "+fnName, why, file, line)
}

// Returns: the set of canonical return forms of fn equals want (order-insensitive).
func (r *Run) Returns(fnName string, want []string, why string) {
	fn := r.fn(fnName)
	if fn == nil {
		return
	}
	file, line := r.P.FnPos(fn)
	fi := r.P.Info(fn)
	got := map[string]bool{}
	onlyFail := map[string]bool{} // result forms that occur only at provably failing exits (non-nil error)
	for _, e := range r.P.Effects(fn) {
		if e.Kind == "return" {
			fail := fi.failKind == "error" && fi.failExit[e.Instr.Block()]
			if !got[e.Canon] {
				onlyFail[e.Canon] = fail
			} else if !fail {
				onlyFail[e.Canon] = false
			}
			got[e.Canon] = true
		}
	}
	ws := map[string]bool{}
	for _, w := range want {
		ws["return "+r.X(w)] = true
	}
	// `return f()` for a multi-result f is `v, err := f(); if err != nil { return zero…, err }; return v, nil`
	if ei := errResultIndex(fn.Signature); ei > 0 {
		for g := range got {
			if ws[g] {
				continue
			}
			comps := splitTop(strings.TrimPrefix(g, "return "))
			if len(comps) != ei+1 || !strings.HasSuffix(comps[0], "#0") {
				continue
			}
			base := strings.TrimSuffix(comps[0], "#0")
			all := true
			for i, c := range comps {
				if c != fmt.Sprintf("%s#%d", base, i) {
					all = false
				}
			}
			if !all {
				continue
			}
			okForm := append(append([]string{}, comps[:ei]...), "nil")
			okS := "return " + strings.Join(okForm, ", ")
			var failS string
			for w := range ws {
				wc := splitTop(strings.TrimPrefix(w, "return "))
				if len(wc) == ei+1 && wc[ei] == comps[ei] && failureOnlyForm("return "+strings.Join(append(append([]string{}, wc[:ei]...), "x.Err"), ", ")) {
					failS = w
				}
			}
			if ws[okS] && failS != "" && !got[okS] && !got[failS] {
				delete(got, g)
				got[okS], got[failS] = true, true
				onlyFail[failS] = true
			}
		}
	}
	var missing, extra, tolerated []string
	newFail := false
	for g := range got {
		if !ws[g] && onlyFail[g] {
			newFail = true
		}
	}
	for w := range ws {
		if !got[w] {
			// a frozen refusal (zero results + a sentinel or fresh error) that is now spelled through a
			// new failure return — e.g. the check moved into a helper whose error is passed on; the
			// rejection itself is pinned by the guard rules
			if newFail && failureOnlyForm(w) {
				tolerated = append(tolerated, "(was) "+w)
				continue
			}
			missing = append(missing, w)
		}
	}
	for g := range got {
		if !ws[g] {
			if onlyFail[g] {
				// a new way to *refuse* (error provably non-nil): more rejection never breaks a
				// row that pins what success returns
				tolerated = append(tolerated, g)
				continue
			}
			if g == "return nil" && r.nilAfterCheckedTail(fn, ws) {
				// `return f()` rewritten as `if err := f(); err != nil { return err }; return nil`
				tolerated = append(tolerated, g)
				continue
			}
			extra = append(extra, g)
		}
	}
	sort.Strings(missing)
	sort.Strings(extra)
	sort.Strings(tolerated)
	construct := "result forms"
	if len(missing) > 0 || len(extra) > 0 {
		r.viol("K4-returns", fnName, construct, fmt.Sprintf("%s: result expressions changed; missing: %v; new: %v", fnName, missing, extra), why, file, line)
		return
	}
	detail := fmt.Sprintf("%d result forms", len(ws))
	if len(tolerated) > 0 {
		detail += fmt.Sprintf("; %d additional failure-only return(s) accepted: %v", len(tolerated), tolerated)
	}
	r.pass("K4-returns", fnName, construct, detail, why, file, line)
}

// Branch: fn has a conditional branch with this canonical condition (either polarity).
func (r *Run) Branch(fnName, cond, why string) {
	fn := r.fn(fnName)
	if fn == nil {
		return
	}
	cond = r.X(cond)
	file, line := r.P.FnPos(fn)
	for _, g := range r.P.Info(fn).guards {
		if g.Cond.String() == cond || g.Cond.Negate().String() == cond {
			r.pass("K3-branch", fnName, "branches on "+cond, "", why, g.File, g.Line)
			return
		}
	}
	// the branch may have moved into a helper that is new relative to the reviewed tree
	if knownFuncs != nil {
		for _, cs := range r.P.Calls(fn, false) {
			g := cs.Instr.Common().StaticCallee()
			if g == nil || g.Blocks == nil || cs.Path == nil {
				continue
			}
			if n := r.P.FuncName(g); n == "" || knownFuncs[n] {
				continue
			}
			hasRecv := g.Signature.Recv() != nil
			for _, gg := range r.P.Info(g).guards {
				c := gg.Cond.Subst(cs.Path.Args, hasRecv)
				if c.String() == cond || c.Negate().String() == cond {
					r.pass("K3-branch", fnName, "branches on "+cond, "in the new helper "+r.P.FuncName(g), why, gg.File, gg.Line)
					return
				}
			}
		}
	}
	var have []string
	for _, g := range r.P.Info(fn).guards {
		have = append(have, g.Cond.String())
	}
	r.viol("K3-branch", fnName, "branches on "+cond, fmt.Sprintf("%s no longer branches on %s; it branches on: %s", fnName, cond, strings.Join(have, " ; ")), why, file, line)
}

// SignConversions: every sign-changing or narrowing integer conversion of a non-constant value in the
// listed functions must be triaged in table (key: function + "|" + canonical conversion). Untriaged
// ones are violations; entries with verdict "unsafe" are violations (known findings may list them).
func (r *Run) SignConversions(fnNames []string, table map[string]string, why string) {
	n := 0
	for _, fnName := range fnNames {
		fn := r.fn(fnName)
		if fn == nil {
			continue
		}
		env := r.P.Env(fn)
		seen := map[string]bool{}
		for _, b := range fn.Blocks {
			for _, in := range b.Instrs {
				cv, ok := in.(*ssa.Convert)
				if !ok || !riskyConv(cv.X.Type(), cv.Type()) {
					continue
				}
				if _, isC := cv.X.(*ssa.Const); isC {
					continue
				}
				canon := env.of(cv).String()
				if seen[canon] {
					continue
				}
				seen[canon] = true
				n++
				file, line := r.P.Pos(cv.Pos())
				verdict, ok := table[fnName+"|"+canon]
				switch {
				case !ok:
					r.viol("K11-sign-trunc", fnName, canon, fmt.Sprintf("untriaged integer conversion %s in %s: it changes signedness or narrows a run-time value; bound it or add a triage row", canon, fnName), why, file, line)
				case strings.HasPrefix(verdict, "unsafe:"):
					r.viol("K11-sign-trunc", fnName, canon, strings.TrimPrefix(verdict, "unsafe:"), why, file, line)
				default:
					r.pass("K11-sign-trunc", fnName, canon, verdict, why, file, line)
				}
			}
		}
	}
	if n == 0 {
		r.viol("vacuous-rule", "", "sign conversions", "no conversion found in the listed functions", why, "", 0)
	}
}

// StoreBefore: a store whose canonical form starts with storePrefix dominates the evaluation of the
// rejecting guard with canonical form guardFull (so the guard tests the stored, recomputed value).
func (r *Run) StoreBefore(fnName, storePrefix, guardFull, why string) {
	fn := r.fn(fnName)
	if fn == nil {
		return
	}
	storePrefix, guardFull = r.X(storePrefix), r.X(guardFull)
	file, line := r.P.FnPos(fn)
	construct := storePrefix + "… before " + guardFull
	var g *Guard
	for _, x := range r.P.Info(fn).guards {
		if x.Reject != "" && x.Full() == guardFull {
			g = x
		}
	}
	if g == nil {
		// store and guard may have moved together into a helper that is new relative to the reviewed
		// tree: the guard in the caller's terms under the call's context, the store before it there
		for _, cs := range r.newHelperSites(fn) {
			h := cs.Instr.Common().StaticCallee()
			hasRecv := h.Signature.Recv() != nil
			cctx := r.blockCtx(fn, cs.Instr.Block())
			for _, x := range r.P.Info(h).guards {
				if x.Reject == "" {
					continue
				}
				ctx := append([]Cond{}, cctx...)
				for _, c := range x.Ctx {
					ctx = append(ctx, c.Subst(cs.Path.Args, hasRecv))
				}
				if normFull(fullCond(x.RejCond.Subst(cs.Path.Args, hasRecv), ctx)) != normFull(guardFull) {
					continue
				}
				for _, e := range r.P.Effects(h) {
					if e.Kind != "store" || e.P == nil || e.V == nil {
						continue
					}
					canon := "store " + e.P.Subst(cs.Path.Args, hasRecv).String() + " = " + e.V.Subst(cs.Path.Args, hasRecv).String()
					if !strings.HasPrefix(canon, storePrefix) {
						continue
					}
					sb := e.Instr.Block()
					if sb == x.Block || sb.Dominates(x.Block) {
						r.pass("K2-store-before-guard", fnName, construct, "in new helper "+h.Name(), why, e.File, e.Line)
						return
					}
					r.viol("K2-store-before-guard", fnName, construct, fmt.Sprintf("the store at %s:%d does not dominate the guard at %s:%d: the guard can be evaluated on a value that was not recomputed", e.File, e.Line, x.File, x.Line), why, e.File, e.Line)
					return
				}
			}
		}
		r.viol("K2-store-before-guard", fnName, construct, "guard not found: "+guardFull, why, file, line)
		return
	}
	for _, e := range r.P.Effects(fn) {
		if e.Kind == "store" && strings.HasPrefix(e.Canon, storePrefix) {
			sb := e.Instr.Block()
			if sb == g.Block || sb.Dominates(g.Block) {
				r.pass("K2-store-before-guard", fnName, construct, "", why, e.File, e.Line)
				return
			}
			r.viol("K2-store-before-guard", fnName, construct, fmt.Sprintf("the store at %s:%d does not dominate the guard at %s:%d: the guard can be evaluated on a value that was not recomputed", e.File, e.Line, g.File, g.Line), why, e.File, e.Line)
			return
		}
	}
	r.viol("K2-store-before-guard", fnName, construct, "store not found", why, file, line)
}

// GuardLike: fn has a rejecting guard whose condition (without context) starts with prefix.
func (r *Run) GuardLike(fnName, prefix, why string) {
	fn := r.fn(fnName)
	if fn == nil {
		return
	}
	prefix = r.X(prefix)
	file, line := r.P.FnPos(fn)
	for _, g := range r.P.Info(fn).guards {
		if g.Reject != "" && strings.HasPrefix(g.RejCond.String(), prefix) {
			r.pass("K3-guard", fnName, "reject-if "+prefix+"…", fmt.Sprintf("found at %s:%d", g.File, g.Line), why, g.File, g.Line)
			return
		}
	}
	r.viol("K3-guard", fnName, "reject-if "+prefix+"…", fmt.Sprintf("guard missing or weakened: %s no longer rejects on a condition of the form %s…", fnName, prefix), why, file, line)
}

// HasPrefix: fn has an effect whose canonical form starts with prefix.
func (r *Run) HasPrefix(fnName, prefix, why string) {
	fn := r.fn(fnName)
	if fn == nil {
		return
	}
	prefix = r.X(prefix)
	for _, e := range r.P.Effects(fn) {
		if strings.HasPrefix(e.Canon, prefix) {
			r.pass("K4-effect", fnName, prefix+"…", fmt.Sprintf("present at %s:%d", e.File, e.Line), why, e.File, e.Line)
			return
		}
	}
	file, line := r.P.FnPos(fn)
	for c := range r.P.NewHelperEffects(fn) {
		if strings.HasPrefix(c, prefix) {
			r.pass("K4-effect", fnName, prefix+"…", "performed through a helper that is new relative to the reviewed tree", why, file, line)
			return
		}
	}
	r.viol("K4-effect", fnName, prefix+"…", fmt.Sprintf("%s no longer performs an effect of the form `%s…`", fnName, prefix), why, file, line)
}

// RandSeeds: every math/rand.NewSource call in the region has a seed argument among the allowed
// canonical forms.
func (r *Run) RandSeeds(reg map[*ssa.Function]*ssa.Function, allowed []string, why string) {
	n := 0
	for f := range reg {
		name := r.P.FuncName(f)
		if name == "" || f.Blocks == nil {
			continue
		}
		for _, cs := range r.P.Calls(f, false) {
			if cs.Callee != "math/rand.NewSource" {
				continue
			}
			n++
			got := cs.Path.Args[0].String()
			ok := false
			for _, a := range allowed {
				if got == a {
					ok = true
				}
			}
			if ok {
				r.pass("K4-rand-seed", name, "seed "+got, "", why, cs.File, cs.Line)
			} else {
				r.viol("K4-rand-seed", name, "seed "+got, fmt.Sprintf("random source at %s:%d is seeded with `%s`, which is not derived from the proof momentum (allowed: %s)", cs.File, cs.Line, got, strings.Join(allowed, ", ")), why, cs.File, cs.Line)
			}
		}
	}
	if n == 0 {
		r.viol("vacuous-rule", "", "rand seeds", "no rand.NewSource found in the region", why, "", 0)
	}
}

// NoMakeThenAppend: in the listed functions, no slice made with a non-zero length is the base of an
// append (directly, or through the variable/field it was stored in).
func (r *Run) NoMakeThenAppend(fnNames []string, why string) {
	for _, fnName := range fnNames {
		fn := r.fn(fnName)
		if fn == nil {
			continue
		}
		env := r.P.Env(fn)
		file, line := r.P.FnPos(fn)
		// collect canonical "homes" of slices made with non-zero length
		sized := map[string]ssa.Instruction{}
		for _, b := range fn.Blocks {
			for _, in := range b.Instrs {
				ms, ok := in.(*ssa.MakeSlice)
				if !ok {
					continue
				}
				if c, isC := ms.Len.(*ssa.Const); isC && c.Int64() == 0 {
					continue
				}
				for _, ref := range *ms.Referrers() {
					switch x := ref.(type) {
					case *ssa.Store:
						sized[env.of(x.Addr).String()] = in
					case *ssa.Call:
						if bi, ok := x.Call.Value.(*ssa.Builtin); ok && bi.Name() == "append" && x.Call.Args[0] == ssa.Value(ms) {
							f2, l2 := r.P.Pos(x.Pos())
							r.viol("K10-make-then-append", fnName, "make-then-append", fmt.Sprintf("append at %s:%d extends a slice that was made with a non-zero length", f2, l2), why, f2, l2)
						}
					}
				}
			}
		}
		bad := false
		for _, b := range fn.Blocks {
			for _, in := range b.Instrs {
				c, ok := in.(*ssa.Call)
				if !ok {
					continue
				}
				bi, ok := c.Call.Value.(*ssa.Builtin)
				if !ok || bi.Name() != "append" {
					continue
				}
				// base loaded from a home that received a sized make
				if u, ok := c.Call.Args[0].(*ssa.UnOp); ok {
					if _, hit := sized[env.of(u.X).String()]; hit {
						f2, l2 := r.P.Pos(c.Pos())
						r.viol("K10-make-then-append", fnName, "make-then-append", fmt.Sprintf("append at %s:%d extends %s, which was made with a non-zero length: the result has zero-valued leading entries", f2, l2, env.of(u.X).String()), why, f2, l2)
						bad = true
					}
				}
			}
		}
		if !bad {
			r.pass("K10-make-then-append", fnName, "make-then-append", "no append to a pre-sized slice", why, file, line)
		}
	}
}

// MustPassUnless: every success exit of fn passes a successful call matching `match`, except on
// paths that take an edge on which canonical condition `unless` holds.
func (r *Run) MustPassUnless(fnName, match, unless, why string) {
	fn := r.fn(fnName)
	if fn == nil {
		return
	}
	unless = r.X(unless)
	file, line := r.P.FnPos(fn)
	construct := "success only through " + match + " unless " + unless
	sites := r.P.FindCalls(fn, match, false)
	if len(sites) == 0 {
		r.viol("K2-must-pass", fnName, construct, fnName+" no longer calls "+match, why, file, line)
		return
	}
	fi := r.P.Info(fn)
	type edge struct{ a, b *ssa.BasicBlock }
	cutE := map[edge]bool{}
	cutB := map[*ssa.BasicBlock]bool{}
	for _, cs := range sites {
		if from, okSucc := r.P.nilErrEdge(cs.Instr); from != nil {
			cutE[edge{from, okSucc}] = true
		} else {
			cutB[cs.Instr.Block()] = true
		}
	}
	nUnless := 0
	for _, g := range fi.guards {
		if g.Cond.String() == unless {
			cutE[edge{g.Block, g.Block.Succs[0]}] = true
			nUnless++
		} else if g.Cond.Negate().String() == unless {
			cutE[edge{g.Block, g.Block.Succs[1]}] = true
			nUnless++
		}
	}
	reach := reachableAvoiding(fn, func(a, b *ssa.BasicBlock) bool { return cutE[edge{a, b}] }, func(b *ssa.BasicBlock) bool { return cutB[b] })
	for b := range fi.okBlock {
		if reach[b] {
			f2, l2 := r.P.Pos(lastInstr(b).Pos())
			r.viol("K2-must-pass", fnName, construct, fmt.Sprintf("the success return at %s:%d is reachable without a successful %s on a path where %s does not hold", f2, l2, match, unless), why, f2, l2)
			return
		}
	}
	r.pass("K2-must-pass", fnName, construct, fmt.Sprintf("%d call site(s), %d exempting branch(es)", len(sites), nUnless), why, sites[0].File, sites[0].Line)
}

// extFn finds a non-module function by its go/ssa string form, e.g.
// "(*github.com/syndtr/goleveldb/leveldb.DB).Write".
func (r *Run) extFn(full string) *ssa.Function {
	for f := range r.P.allFns {
		if f.String() == full {
			return f
		}
	}
	return nil
}

// WhoMayCallExt: module functions with a CHA edge to the external function `full` ⊆ allowed.
// zeroOK: the external function may have no module caller at all.
func (r *Run) WhoMayCallExt(construct, full string, allowed []string, zeroOK bool, why string) {
	f := r.extFn(full)
	if f == nil {
		if zeroOK {
			r.pass("K1-who-may-call", "", construct, full+" is not part of the program (no caller possible)", why, "", 0)
			return
		}
		r.viol("unresolved-anchor", "", construct, "external function "+full+" not found in the program", why, "", 0)
		return
	}
	callers := r.callersOf(map[*ssa.Function]bool{f: true}, r.P.CHA())
	var names []string
	for n := range callers {
		names = append(names, n)
	}
	sort.Strings(names)
	n := 0
	for _, name := range names {
		if isScaffolding(name) {
			continue
		}
		e := callers[name][0]
		file, line := "", 0
		if e.Site != nil {
			file, line = r.P.Pos(e.Site.Pos())
		}
		if matchAny(name, allowed) {
			n++
			r.pass("K1-who-may-call", name, construct, "allowed caller of "+full, why, file, line)
		} else {
			r.viol("K1-who-may-call", name, construct, fmt.Sprintf("%s calls %s (%s) but is not in the allowed set: %s", name, full, construct, strings.Join(allowed, ", ")), why, file, line)
		}
	}
	if n == 0 && !zeroOK {
		r.viol("vacuous-rule", "", construct, "no caller of "+full+" found", why, "", 0)
	}
	if n == 0 && zeroOK {
		r.pass("K1-who-may-call", "", construct, "no module function calls "+full, why, "", 0)
	}
}

// OnlyUnder: every call matching `match` in fn is reachable only through the edge on which the
// canonical branch condition cond holds.
func (r *Run) OnlyUnder(fnName, cond, match, why string) {
	fn := r.fn(fnName)
	if fn == nil {
		return
	}
	cond = r.X(cond)
	file, line := r.P.FnPos(fn)
	construct := match + " only when " + cond
	sites := r.P.FindCalls(fn, match, false)
	if len(sites) == 0 {
		r.viol("K2-only-under", fnName, construct, fnName+" no longer calls "+match, why, file, line)
		return
	}
	for _, g := range r.P.Info(fn).guards {
		var to *ssa.BasicBlock
		if g.Cond.String() == cond {
			to = g.Block.Succs[0]
		} else if g.Cond.Negate().String() == cond {
			to = g.Block.Succs[1]
		} else {
			continue
		}
		for _, cs := range sites {
			if !edgeDominates(g.Block, to, cs.Instr.Block()) {
				r.viol("K2-only-under", fnName, construct, fmt.Sprintf("%s at %s:%d is reachable on a path where %s does not hold", match, cs.File, cs.Line, cond), why, cs.File, cs.Line)
				return
			}
		}
		r.pass("K2-only-under", fnName, construct, fmt.Sprintf("%d site(s)", len(sites)), why, g.File, g.Line)
		return
	}
	var have []string
	for _, g := range r.P.Info(fn).guards {
		have = append(have, g.Cond.String())
	}
	r.viol("K2-only-under", fnName, construct, fmt.Sprintf("%s no longer branches on %s; it branches on: %s", fnName, cond, strings.Join(have, " ; ")), why, file, line)
}

// CallsUnderLock: every call matching `match` in fn executes with recv.<mutex> definitely held.
func (r *Run) CallsUnderLock(fnName, mutex, match, why string) {
	fn := r.fn(fnName)
	if fn == nil {
		return
	}
	file, line := r.P.FnPos(fn)
	construct := match + " under " + mutex
	sites := r.P.FindCalls(fn, match, false)
	if len(sites) == 0 {
		r.viol("K6-lockset", fnName, construct, fnName+" no longer calls "+match, why, file, line)
		return
	}
	st := r.P.lockState(fn, "recv."+mutex, false)
	for _, cs := range sites {
		if !st[cs.Instr.(ssa.Instruction)] {
			r.viol("K6-lockset", fnName, construct, fmt.Sprintf("%s at %s:%d executes without %s held", match, cs.File, cs.Line, mutex), why, cs.File, cs.Line)
			return
		}
	}
	r.pass("K6-lockset", fnName, construct, fmt.Sprintf("%d site(s)", len(sites)), why, sites[0].File, sites[0].Line)
}

// AllocCount: fn allocates exactly n values of the external/module named type (by short type string).
func (r *Run) AllocCount(fnName, shortTyp string, n int, why string) {
	fn := r.fn(fnName)
	if fn == nil {
		return
	}
	file, line := r.P.FnPos(fn)
	got := 0
	for _, b := range fn.Blocks {
		for _, in := range b.Instrs {
			if a, ok := in.(*ssa.Alloc); ok && shortType(a.Type().(*types.Pointer).Elem()) == shortTyp {
				got++
			}
		}
	}
	construct := fmt.Sprintf("exactly %d %s", n, shortTyp)
	if got != n {
		r.viol("K2-alloc-count", fnName, construct, fmt.Sprintf("%s creates %d values of %s, expected %d", fnName, got, shortTyp, n), why, file, line)
		return
	}
	r.pass("K2-alloc-count", fnName, construct, "", why, file, line)
}

// PanicsAlways: every path through fn ends in a panic (it never returns normally).
func (r *Run) PanicsAlways(fnName, why string) {
	fn := r.fn(fnName)
	if fn == nil {
		return
	}
	file, line := r.P.FnPos(fn)
	for _, b := range fn.Blocks {
		if _, ok := lastInstr(b).(*ssa.Return); ok {
			r.viol("K8-always-panics", fnName, "never returns", fnName+" can return normally; it must panic on every path", why, file, line)
			return
		}
	}
	r.pass("K8-always-panics", fnName, "never returns", "", why, file, line)
}

// OnSuccessMustCall: in fn, whenever a call matching `match` succeeds (nil error), every path to a
// return passes a call matching one of targets ("|" separated).
func (r *Run) OnSuccessMustCall(fnName, match, targets, why string) {
	fn := r.fn(fnName)
	if fn == nil {
		return
	}
	file, line := r.P.FnPos(fn)
	construct := "success of " + match + " ⇒ " + targets
	sites := r.P.FindCalls(fn, match, false)
	if len(sites) == 0 {
		r.viol("K2-on-success", fnName, construct, fnName+" no longer calls "+match, why, file, line)
		return
	}
	tl := strings.Split(targets, "|")
	for _, cs := range sites {
		from, okSucc := r.P.nilErrEdge(cs.Instr)
		if from == nil {
			r.viol("K2-on-success", fnName, construct, fmt.Sprintf("the error of %s at %s:%d is not tested", match, cs.File, cs.Line), why, cs.File, cs.Line)
			return
		}
		if b, bad := r.exitReachableAvoidingCalls(fn, okSucc, tl); bad {
			f2, l2 := r.P.Pos(lastInstr(b).Pos())
			r.viol("K2-on-success", fnName, construct, fmt.Sprintf("after %s succeeds (%s:%d) the return at %s:%d is reachable without calling %s", match, cs.File, cs.Line, f2, l2, targets), why, f2, l2)
			return
		}
		// the loop must not come back to `match` without passing the target either
		if reachesBlockAvoidingCalls(r, fn, okSucc, cs.Instr.Block(), tl) {
			r.viol("K2-on-success", fnName, construct, fmt.Sprintf("after %s succeeds (%s:%d) the next iteration is reachable without calling %s", match, cs.File, cs.Line, targets), why, cs.File, cs.Line)
			return
		}
	}
	r.pass("K2-on-success", fnName, construct, fmt.Sprintf("%d site(s)", len(sites)), why, sites[0].File, sites[0].Line)
}

func reachesBlockAvoidingCalls(r *Run, fn *ssa.Function, start, target *ssa.BasicBlock, targets []string) bool {
	has := map[*ssa.BasicBlock]bool{}
	for _, cs := range r.P.Calls(fn, false) {
		for _, t := range targets {
			if calleeMatches(cs, t) {
				has[cs.Instr.Block()] = true
			}
		}
	}
	if has[start] {
		return false
	}
	seen := map[*ssa.BasicBlock]bool{start: true}
	st := []*ssa.BasicBlock{start}
	for len(st) > 0 {
		b := st[len(st)-1]
		st = st[:len(st)-1]
		for _, s := range b.Succs {
			if s == target {
				return true
			}
			if !seen[s] && !has[s] {
				seen[s] = true
				st = append(st, s)
			}
		}
	}
	return false
}

// MustCall: every return of fn is preceded by a call matching `match` (whatever its outcome).
func (r *Run) MustCall(fnName, match, why string) {
	fn := r.fn(fnName)
	if fn == nil {
		return
	}
	file, line := r.P.FnPos(fn)
	construct := "always calls " + match
	sites := r.P.FindCalls(fn, match, false)
	if len(sites) == 0 {
		r.viol("K2-must-call", fnName, construct, fnName+" no longer calls "+match, why, file, line)
		return
	}
	cut := map[*ssa.BasicBlock]bool{}
	for _, cs := range sites {
		cut[cs.Instr.Block()] = true
	}
	reach := reachableAvoiding(fn, nil, func(b *ssa.BasicBlock) bool { return cut[b] })
	for b := range reach {
		if _, ok := lastInstr(b).(*ssa.Return); ok {
			f2, l2 := r.P.Pos(lastInstr(b).Pos())
			r.viol("K2-must-call", fnName, construct, fmt.Sprintf("%s can return (%s:%d) without having called %s", fnName, f2, l2, match), why, f2, l2)
			return
		}
	}
	r.pass("K2-must-call", fnName, construct, "", why, sites[0].File, sites[0].Line)
}

// StoreContext: fn has a store whose canonical form starts with prefix, and the set of plain-branch
// conditions under which it executes is exactly wantCtx (" & "-joined, any order; "" = unconditional).
func (r *Run) StoreContext(fnName, prefix, wantCtx, why string) {
	fn := r.fn(fnName)
	if fn == nil {
		return
	}
	prefix = r.X(prefix)
	file, line := r.P.FnPos(fn)
	construct := prefix + "… exactly when " + wantCtx
	for _, e := range r.P.Effects(fn) {
		if e.Kind != "store" || !strings.HasPrefix(e.Canon, prefix) {
			continue
		}
		var cs []string
		seen := map[string]bool{}
		for _, c := range r.blockCtx(fn, e.Instr.Block()) {
			if s := c.String(); !seen[s] {
				seen[s] = true
				cs = append(cs, s)
			}
		}
		sort.Strings(cs)
		got := strings.Join(cs, " & ")
		want := strings.TrimPrefix(normFull("x @ "+r.X(wantCtx)), "x @ ")
		if wantCtx == "" {
			want = ""
		}
		if got == want {
			r.pass("K2-store-context", fnName, construct, "", why, e.File, e.Line)
		} else {
			r.viol("K2-store-context", fnName, construct, fmt.Sprintf("the store at %s:%d now executes under `%s` instead of `%s`: on the other paths the value is not recomputed", e.File, e.Line, got, want), why, e.File, e.Line)
		}
		return
	}
	// the store may have moved into a helper that is new relative to the reviewed tree: the same
	// store in the caller's terms, under the call's context plus its context inside the helper
	for _, hs := range r.newHelperSites(fn) {
		h := hs.Instr.Common().StaticCallee()
		hasRecv := h.Signature.Recv() != nil
		for _, e := range r.P.Effects(h) {
			if e.Kind != "store" || e.P == nil || e.V == nil {
				continue
			}
			canon := "store " + e.P.Subst(hs.Path.Args, hasRecv).String() + " = " + e.V.Subst(hs.Path.Args, hasRecv).String()
			if !strings.HasPrefix(canon, prefix) {
				continue
			}
			var cs []string
			seen := map[string]bool{}
			ctx := append([]Cond{}, r.blockCtx(fn, hs.Instr.Block())...)
			for _, c := range r.blockCtx(h, e.Instr.Block()) {
				ctx = append(ctx, c.Subst(hs.Path.Args, hasRecv))
			}
			for _, c := range ctx {
				if s := c.String(); !seen[s] {
					seen[s] = true
					cs = append(cs, s)
				}
			}
			sort.Strings(cs)
			got := strings.Join(cs, " & ")
			want := strings.TrimPrefix(normFull("x @ "+r.X(wantCtx)), "x @ ")
			if wantCtx == "" {
				want = ""
			}
			if got == want {
				r.pass("K2-store-context", fnName, construct, "in new helper "+h.Name(), why, e.File, e.Line)
			} else {
				r.viol("K2-store-context", fnName, construct, fmt.Sprintf("the store at %s:%d (new helper %s) now executes under `%s` instead of `%s`: on the other paths the value is not recomputed", e.File, e.Line, h.Name(), got, want), why, e.File, e.Line)
			}
			return
		}
	}
	r.viol("K2-store-context", fnName, construct, "store not found", why, file, line)
}

// NoLoadAfterStore: in fn, no load of the memory at canonical address path p is reachable after a
// store to it (the value used later is the one read before the store).
func (r *Run) NoLoadAfterStore(fnName, p, why string) {
	fn := r.fn(fnName)
	if fn == nil {
		return
	}
	p = r.X(p)
	env := r.P.Env(fn)
	file, line := r.P.FnPos(fn)
	construct := "load-before-store " + p
	var stores []*ssa.Store
	var loads []*ssa.UnOp
	for _, b := range fn.Blocks {
		for _, in := range b.Instrs {
			switch x := in.(type) {
			case *ssa.Store:
				if !isLocalAddr(x.Addr) && env.of(x.Addr).String() == p {
					stores = append(stores, x)
				}
			case *ssa.UnOp:
				if x.Op.String() == "*" {
					if _, isAlloc := x.X.(*ssa.Alloc); !isAlloc && env.of(x.X).String() == p {
						loads = append(loads, x)
					}
				}
			}
		}
	}
	if len(stores) == 0 || len(loads) == 0 {
		r.viol("K2-load-before-store", fnName, construct, fmt.Sprintf("expected both a load and a store of %s in %s (found %d loads, %d stores)", p, fnName, len(loads), len(stores)), why, file, line)
		return
	}
	for _, st := range stores {
		// blocks reachable strictly after the store
		seen := map[*ssa.BasicBlock]bool{}
		work := append([]*ssa.BasicBlock(nil), st.Block().Succs...)
		for len(work) > 0 {
			b := work[len(work)-1]
			work = work[:len(work)-1]
			if seen[b] {
				continue
			}
			seen[b] = true
			work = append(work, b.Succs...)
		}
		for _, ld := range loads {
			after := seen[ld.Block()] || (ld.Block() == st.Block() && instrIndex(ld) > instrIndex(st))
			if after {
				f2, l2 := r.P.Pos(ld.Pos())
				r.viol("K2-load-before-store", fnName, construct, fmt.Sprintf("%s is read at %s:%d after it has been overwritten: the value used is the overwritten one, not the entry's original", p, f2, l2), why, f2, l2)
				return
			}
		}
	}
	r.pass("K2-load-before-store", fnName, construct, fmt.Sprintf("%d load(s) all before %d store(s)", len(loads), len(stores)), why, file, line)
}

// OnCondMustNotCall: from the edge on which cond holds, none of the calls is reachable.
func (r *Run) OnCondMustNotCall(fnName, cond string, matches []string, why string) {
	fn := r.fn(fnName)
	if fn == nil {
		return
	}
	cond = r.X(cond)
	file, line := r.P.FnPos(fn)
	construct := "when " + cond + " ⇒ none of " + strings.Join(matches, ",")
	for _, g := range r.P.Info(fn).guards {
		var start *ssa.BasicBlock
		if g.Cond.String() == cond {
			start = g.Block.Succs[0]
		} else if g.Cond.Negate().String() == cond {
			start = g.Block.Succs[1]
		} else {
			continue
		}
		seen := map[*ssa.BasicBlock]bool{start: true}
		work := []*ssa.BasicBlock{start}
		for len(work) > 0 {
			b := work[len(work)-1]
			work = work[:len(work)-1]
			for _, s := range b.Succs {
				if !seen[s] {
					seen[s] = true
					work = append(work, s)
				}
			}
		}
		for _, m := range matches {
			for _, cs := range r.P.FindCalls(fn, m, false) {
				if seen[cs.Instr.Block()] {
					r.viol("K2-on-cond-not", fnName, construct, fmt.Sprintf("when %s holds (%s:%d), %s at %s:%d is still reachable", cond, g.File, g.Line, m, cs.File, cs.Line), why, cs.File, cs.Line)
					return
				}
			}
		}
		r.pass("K2-on-cond-not", fnName, construct, "", why, g.File, g.Line)
		return
	}
	r.viol("K2-on-cond-not", fnName, construct, fnName+" no longer branches on "+cond, why, file, line)
}

// EffectRows: shorthand for several Has rows on one function.
func (r *Run) EffectRows(fnName string, canons []string, why string) {
	for _, c := range canons {
		r.Has(fnName, c, why)
	}
}

// BinOpWidth: every integer + and * in fn operates on values at least `bits` wide.
func (r *Run) BinOpWidth(fnName string, bits int, why string) {
	fn := r.fn(fnName)
	if fn == nil {
		return
	}
	file, line := r.P.FnPos(fn)
	n := 0
	for _, b := range fn.Blocks {
		for _, in := range b.Instrs {
			bo, ok := in.(*ssa.BinOp)
			if !ok || (bo.Op.String() != "*" && bo.Op.String() != "+") {
				continue
			}
			bt, ok := bo.Type().Underlying().(*types.Basic)
			if !ok || bt.Info()&types.IsInteger == 0 {
				continue
			}
			n++
			w := 64
			switch bt.Kind() {
			case types.Int8, types.Uint8:
				w = 8
			case types.Int16, types.Uint16:
				w = 16
			case types.Int32, types.Uint32:
				w = 32
			}
			if w < bits {
				f2, l2 := r.P.Pos(bo.Pos())
				r.viol("K11-narrow-arithmetic", fnName, fmt.Sprintf("arithmetic in >= %d bits", bits), fmt.Sprintf("%s at %s:%d is computed in %d bits on request-controlled operands: it wraps for large inputs", r.P.Env(fn).of(bo).String(), f2, l2, w), why, f2, l2)
				return
			}
		}
	}
	if n == 0 {
		r.viol("K11-narrow-arithmetic", fnName, fmt.Sprintf("arithmetic in >= %d bits", bits), "no arithmetic found (anchor changed)", why, file, line)
		return
	}
	r.pass("K11-narrow-arithmetic", fnName, fmt.Sprintf("arithmetic in >= %d bits", bits), fmt.Sprintf("%d operations", n), why, file, line)
}

// RecoverCovers: fn installs a recovering, swallowing defer that dominates every call matching one
// of the matchers.
func (r *Run) RecoverCovers(fnName string, matches []string, why string) {
	fn := r.fn(fnName)
	if fn == nil {
		return
	}
	file, line := r.P.FnPos(fn)
	construct := "recover covers " + strings.Join(matches, ",")
	d := r.P.deferredRecover(fn)
	if d == nil {
		r.viol("K8-recover", fnName, construct, fnName+" no longer defers a closure that recovers and swallows panics", why, file, line)
		return
	}
	n := 0
	for _, m := range matches {
		for _, cs := range r.P.FindCalls(fn, m, false) {
			n++
			if !instrDominates(d, cs.Instr.(ssa.Instruction)) {
				r.viol("K8-recover", fnName, construct, fmt.Sprintf("%s at %s:%d executes outside the recovering defer", m, cs.File, cs.Line), why, cs.File, cs.Line)
				return
			}
		}
	}
	if n == 0 {
		r.viol("K8-recover", fnName, construct, "none of the covered calls is present", why, file, line)
		return
	}
	f2, l2 := r.P.Pos(d.Pos())
	r.pass("K8-recover", fnName, construct, fmt.Sprintf("%d call(s) covered", n), why, f2, l2)
}

// droppedErrors lists call instructions in fn whose error result is not used at all.
func (r *Run) droppedErrors(fn *ssa.Function) []*CallSite {
	var out []*CallSite
	for _, cs := range r.P.Calls(fn, false) {
		if _, isDefer := cs.Instr.(*ssa.Defer); isDefer {
			continue
		}
		if _, isGo := cs.Instr.(*ssa.Go); isGo {
			continue
		}
		sig := cs.Instr.Common().Signature()
		ei := errResultIndex(sig)
		if ei < 0 {
			continue
		}
		v := cs.Instr.Value()
		if v == nil {
			continue
		}
		used := false
		if sig.Results().Len() == 1 {
			used = len(*v.Referrers()) > 0
		} else {
			for _, ref := range *v.Referrers() {
				if ex, ok := ref.(*ssa.Extract); ok && ex.Index == ei && len(*ex.Referrers()) > 0 {
					used = true
				}
			}
		}
		if !used {
			out = append(out, cs)
		}
	}
	return out
}

// NoDroppedErrors: in the listed functions no call drops its error result (exceptions: "<fn>|<callee>" → reason).
func (r *Run) NoDroppedErrors(fnNames []string, exceptions map[string]string, why string) {
	for _, fnName := range fnNames {
		fn := r.fn(fnName)
		if fn == nil {
			continue
		}
		file, line := r.P.FnPos(fn)
		ds := r.droppedErrors(fn)
		byCallee := map[string][]*CallSite{}
		var keys []string
		for _, d := range ds {
			if _, ok := byCallee[d.Callee]; !ok {
				keys = append(keys, d.Callee)
			}
			byCallee[d.Callee] = append(byCallee[d.Callee], d)
		}
		sort.Strings(keys)
		for _, k := range keys {
			d := byCallee[k][0]
			construct := "error of " + k + " used"
			if reason, ok := exceptions[fnName+"|"+k]; ok {
				r.pass("K2-error-discipline", fnName, construct, "exception: "+reason, why, d.File, d.Line)
				continue
			}
			r.viol("K2-error-discipline", fnName, construct, fmt.Sprintf("%s discards the error returned by %s (%d call site(s), first at %s:%d): a failing step is silently skipped", fnName, k, len(byCallee[k]), d.File, d.Line), why, d.File, d.Line)
		}
		if len(ds) == 0 {
			r.pass("K2-error-discipline", fnName, "no dropped errors", "", why, file, line)
		}
	}
}

// LoopNoEarlyExit: the range loop over the collection with canonical path coll in fn has no early
// exit (break/return) from its body.
func (r *Run) LoopNoEarlyExit(fnName, coll, why string) {
	fn := r.fn(fnName)
	if fn == nil {
		return
	}
	coll = r.X(coll)
	env := r.P.Env(fn)
	file, line := r.P.FnPos(fn)
	construct := "loop over " + coll + " visits every element"
	// slice range loops: header = block whose If compares (iter+1) < len(coll)
	want := "lt(iter,len(" + coll + "))"
	for _, b := range fn.Blocks {
		ifi, ok := lastInstr(b).(*ssa.If)
		if !ok || env.condOf(ifi.Cond).String() != want {
			continue
		}
		// natural loop of header b
		inLoop := map[*ssa.BasicBlock]bool{b: true}
		work := []*ssa.BasicBlock{}
		for _, p := range b.Preds {
			if b.Dominates(p) {
				work = append(work, p)
			}
		}
		for len(work) > 0 {
			x := work[len(work)-1]
			work = work[:len(work)-1]
			if inLoop[x] {
				continue
			}
			inLoop[x] = true
			work = append(work, x.Preds...)
		}
		for x := range inLoop {
			if x == b {
				continue
			}
			for _, s := range x.Succs {
				if !inLoop[s] {
					f2, l2 := r.P.Pos(lastInstr(x).Pos())
					if f2 == "" {
						f2, l2 = file, line
					}
					r.viol("K2-loop-complete", fnName, construct, fmt.Sprintf("the body of the loop over %s leaves the loop early (near %s:%d): later elements are ignored", coll, f2, l2), why, f2, l2)
					return
				}
			}
		}
		// a Return inside the dominated body that is not in the natural loop
		f2, l2 := r.P.Pos(ifi.Cond.Pos())
		r.pass("K2-loop-complete", fnName, construct, "", why, f2, l2)
		return
	}
	r.viol("K2-loop-complete", fnName, construct, "loop not found", why, file, line)
}

// UnreachableWhen: no effect whose canonical form starts with prefix is reachable from the entry of fn
// on paths where all the given conditions hold (branches on those conditions, or on their
// negations, are followed only along the consistent edge; every other branch both ways).
func (r *Run) UnreachableWhen(fnName, prefix string, conds []string, why string) {
	fn := r.fn(fnName)
	if fn == nil {
		return
	}
	prefix = r.X(prefix)
	file, line := r.P.FnPos(fn)
	construct := prefix + "… unreachable when " + strings.Join(conds, " & ")
	holds := map[string]bool{}
	for _, c := range conds {
		holds[r.X(c)] = true
	}
	env := r.P.Env(fn)
	used := map[string]bool{}
	reach := map[*ssa.BasicBlock]bool{fn.Blocks[0]: true}
	work := []*ssa.BasicBlock{fn.Blocks[0]}
	for len(work) > 0 {
		b := work[len(work)-1]
		work = work[:len(work)-1]
		succs := b.Succs
		if ifi, ok := lastInstr(b).(*ssa.If); ok {
			c := env.condOf(ifi.Cond)
			switch {
			case holds[c.String()]:
				succs = b.Succs[:1]
				used[c.String()] = true
			case holds[c.Negate().String()]:
				succs = b.Succs[1:]
				used[c.Negate().String()] = true
			}
		}
		for _, s := range succs {
			if !reach[s] {
				reach[s] = true
				work = append(work, s)
			}
		}
	}
	found := false
	for _, e := range r.P.Effects(fn) {
		if !strings.HasPrefix(e.Canon, prefix) {
			continue
		}
		found = true
		if reach[e.Instr.Block()] {
			r.viol("K2-unreachable-when", fnName, construct, fmt.Sprintf("%s at %s:%d is reachable although %s", e.Canon, e.File, e.Line, strings.Join(conds, " and ")), why, e.File, e.Line)
			return
		}
		file, line = e.File, e.Line
	}
	if !found {
		// the effect is gone altogether: nothing to reach
		r.pass("K2-unreachable-when", fnName, construct, "effect absent", why, file, line)
		return
	}
	for c := range holds {
		if !used[c] {
			r.viol("K2-unreachable-when", fnName, construct, fnName+" no longer branches on "+c, why, file, line)
			return
		}
	}
	r.pass("K2-unreachable-when", fnName, construct, "", why, file, line)
}

// nilAfterCheckedTail: fn has a single error result and every `return nil` of fn is reached only
// through the accepting edge of a guard `reject-if ne(nil,X)` where `return X` is a wanted form —
// the expanded spelling of `return X`.
func (r *Run) nilAfterCheckedTail(fn *ssa.Function, wanted map[string]bool) bool {
	if fn.Signature.Results().Len() != 1 || errResultIndex(fn.Signature) != 0 {
		return false
	}
	fi := r.P.Info(fn)
	found := false
	for _, b := range fn.Blocks {
		ret, ok := lastInstr(b).(*ssa.Return)
		if !ok || b == fn.Recover {
			continue
		}
		c, isC := retOperand(ret, 0).(*ssa.Const)
		if !isC || c.Value != nil {
			continue
		}
		covered := false
		for _, g := range fi.guards {
			if g.Reject == "" || g.RejCond.Op != "ne" {
				continue
			}
			var x *Path
			switch {
			case g.RejCond.L != nil && g.RejCond.L.String() == "nil":
				x = g.RejCond.R
			case g.RejCond.R != nil && g.RejCond.R.String() == "nil":
				x = g.RejCond.L
			}
			if x == nil || !wanted["return "+x.String()] {
				continue
			}
			if edgeDominates(g.Block, g.Accept(), b) {
				covered = true
			}
		}
		if !covered {
			return false
		}
		found = true
	}
	return found
}

// ReturnOnlyUnder: every return of fn with this canonical form is reached only through the edge on
// which cond holds (the value is handed out only after the validating comparison succeeded).
func (r *Run) ReturnOnlyUnder(fnName, ret, cond, why string) {
	fn := r.fn(fnName)
	if fn == nil {
		return
	}
	ret, cond = "return "+r.X(ret), r.X(cond)
	file, line := r.P.FnPos(fn)
	construct := ret + " only when " + cond
	var g0 *Guard
	var edge *ssa.BasicBlock
	for _, g := range r.P.Info(fn).guards {
		if g.Cond.String() == cond {
			g0, edge = g, g.Block.Succs[0]
		} else if g.Cond.Negate().String() == cond {
			g0, edge = g, g.Block.Succs[1]
		}
	}
	if g0 == nil {
		r.viol("K2-return-only-under", fnName, construct, fnName+" no longer branches on "+cond, why, file, line)
		return
	}
	n := 0
	for _, e := range r.P.Effects(fn) {
		if e.Kind != "return" || e.Canon != ret {
			continue
		}
		n++
		if !edgeDominates(g0.Block, edge, e.Instr.Block()) {
			r.viol("K2-return-only-under", fnName, construct, fmt.Sprintf("%s at %s:%d is reachable on a path where %s was not established", ret, e.File, e.Line, cond), why, e.File, e.Line)
			return
		}
	}
	if n == 0 {
		r.viol("K2-return-only-under", fnName, construct, fnName+" no longer has "+ret, why, file, line)
		return
	}
	r.pass("K2-return-only-under", fnName, construct, fmt.Sprintf("%d return site(s)", n), why, g0.File, g0.Line)
}

// sliceLoop finds the natural loop of the `for … range coll` over a slice with canonical path coll.
func (r *Run) sliceLoop(fn *ssa.Function, coll string) (*ssa.BasicBlock, map[*ssa.BasicBlock]bool) {
	env := r.P.Env(fn)
	want := "lt(iter,len(" + coll + "))"
	for _, b := range fn.Blocks {
		ifi, ok := lastInstr(b).(*ssa.If)
		if !ok || env.condOf(ifi.Cond).String() != want {
			continue
		}
		inLoop := map[*ssa.BasicBlock]bool{b: true}
		var work []*ssa.BasicBlock
		for _, p := range b.Preds {
			if b.Dominates(p) {
				work = append(work, p)
			}
		}
		for len(work) > 0 {
			x := work[len(work)-1]
			work = work[:len(work)-1]
			if inLoop[x] {
				continue
			}
			inLoop[x] = true
			work = append(work, x.Preds...)
		}
		return b, inLoop
	}
	return nil, nil
}

// LoopBodyStraight: the body of the range loop over coll treats every element alike — no branch
// inside the body skips part of it (`continue` under a condition); only rejecting exits are allowed.
// For encoders/decoders: an element that is conditionally left out does not round-trip.
func (r *Run) LoopBodyStraight(fnName, coll, why string) {
	fn := r.fn(fnName)
	if fn == nil {
		return
	}
	coll = r.X(coll)
	file, line := r.P.FnPos(fn)
	construct := "loop over " + coll + " handles every element alike"
	header, inLoop := r.sliceLoop(fn, coll)
	if header == nil {
		r.viol("K2-loop-straight", fnName, construct, "loop not found", why, file, line)
		return
	}
	fi := r.P.Info(fn)
	for _, b := range fn.Blocks {
		if !inLoop[b] || b == header {
			continue
		}
		ifi, ok := lastInstr(b).(*ssa.If)
		if !ok {
			continue
		}
		in0, in1 := inLoop[b.Succs[0]], inLoop[b.Succs[1]]
		if in0 && in1 {
			// an inner loop's own header is not a skip
			if isLoopHeader(b) {
				continue
			}
			f2, l2 := r.P.Pos(ifi.Cond.Pos())
			if f2 == "" {
				f2, l2 = file, line
			}
			r.viol("K2-loop-straight", fnName, construct, fmt.Sprintf("the loop over %s branches on %s inside its body (%s:%d): some elements are handled differently or skipped", coll, r.P.Env(fn).condOf(ifi.Cond), f2, l2), why, f2, l2)
			return
		}
		// one edge leaves the loop: fine if it only fails
		out := b.Succs[0]
		if in0 {
			out = b.Succs[1]
		}
		if fi.canOK[out] {
			f2, l2 := r.P.Pos(ifi.Cond.Pos())
			r.viol("K2-loop-straight", fnName, construct, fmt.Sprintf("the loop over %s is left early on a non-failing path (%s:%d): later elements are ignored", coll, f2, l2), why, f2, l2)
			return
		}
	}
	f2, l2 := r.P.Pos(lastInstr(header).(*ssa.If).Cond.Pos())
	r.pass("K2-loop-straight", fnName, construct, "", why, f2, l2)
}

// failureOnlyForm: "return nil, 0, …, <sentinel error>" — every result but the last is a zero value
// and the last names an error (Err…/errors.Errorf(…)).
func failureOnlyForm(f string) bool {
	comps := splitTop(strings.TrimPrefix(f, "return "))
	if len(comps) == 0 {
		return false
	}
	last := comps[len(comps)-1]
	if !(strings.Contains(last, ".Err") || strings.HasPrefix(last, "errors.Errorf(") || strings.Contains(last, "Error(")) {
		return false
	}
	for _, c := range comps[:len(comps)-1] {
		switch {
		case c == "nil", c == "0", c == "false", c == `""`, strings.HasPrefix(c, "zero("):
		default:
			return false
		}
	}
	return true
}
