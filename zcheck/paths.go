package main

import (
	"fmt"
	"go/constant"
	"go/token"
	"go/types"
	"sort"
	"strings"

	"golang.org/x/tools/go/ssa"
)

// Path is the access-path abstraction of an SSA value: go/ssa has no CSE, so two loads of
// abv.block.Amount are two values; rules compare paths. Paths mention only type-checker-level
// names (fields, functions, globals, constants), never locals, positions or source text.
type Path struct {
	Kind string // param recv field call const global phi binop unop index alloc extract closure conv typeassert slice lookup range next unknown
	Name string
	Idx  int
	Args []*Path
	str  string
}

func (p *Path) String() string {
	if p == nil {
		return "<nil>"
	}
	if p.str != "" {
		return p.str
	}
	var s string
	switch p.Kind {
	case "recv":
		s = "recv"
	case "param":
		s = fmt.Sprintf("a%d", p.Idx)
	case "field":
		s = p.Args[0].String() + "." + p.Name
	case "call":
		var as []string
		for _, a := range p.Args {
			as = append(as, a.String())
		}
		if p.Idx == 1 { // method-style: first arg is receiver
			s = as[0] + "." + p.Name + "(" + strings.Join(as[1:], ",") + ")"
		} else {
			s = p.Name + "(" + strings.Join(as, ",") + ")"
		}
	case "const", "global", "alloc", "closure", "unknown":
		s = p.Name
	case "phi":
		var as []string
		for _, a := range p.Args {
			as = append(as, a.String())
		}
		s = "phi(" + strings.Join(as, "|") + ")"
	case "binop":
		s = "(" + p.Args[0].String() + p.Name + p.Args[1].String() + ")"
	case "unop":
		if p.Name == "next" {
			s = "next(" + p.Args[0].String() + ")"
		} else {
			s = p.Name + p.Args[0].String()
		}
	case "index":
		s = p.Args[0].String() + "[" + p.Args[1].String() + "]"
	case "extract":
		s = p.Args[0].String() + "#" + fmt.Sprint(p.Idx)
	case "typeassert":
		s = p.Args[0].String() + ".(" + p.Name + ")"
	case "slice":
		s = p.Args[0].String() + "[" + p.Name + "]"
	case "range":
		s = "range(" + p.Args[0].String() + ")"
	default:
		s = "?" + p.Kind
	}
	p.str = s
	return s
}

// Contains reports whether sub occurs in p (structurally, by canonical string).
func (p *Path) Contains(sub string) bool {
	if p == nil {
		return false
	}
	if p.String() == sub {
		return true
	}
	for _, a := range p.Args {
		if a.Contains(sub) {
			return true
		}
	}
	return false
}

// Leaves collects the non-composite sources of a path (params, fields of params, globals, calls …)
func (p *Path) Walk(f func(*Path) bool) {
	if p == nil || !f(p) {
		return
	}
	for _, a := range p.Args {
		a.Walk(f)
	}
}

// Subst replaces recv/param leaves by the caller's argument paths.
func (p *Path) Subst(args []*Path, hasRecv bool) *Path {
	if p == nil {
		return nil
	}
	switch p.Kind {
	case "recv":
		if len(args) > 0 {
			return args[0]
		}
		return p
	case "param":
		i := p.Idx
		if hasRecv {
			i++
		}
		if i < len(args) {
			return args[i]
		}
		return p
	}
	if len(p.Args) == 0 {
		return p
	}
	np := &Path{Kind: p.Kind, Name: p.Name, Idx: p.Idx}
	for _, a := range p.Args {
		np.Args = append(np.Args, a.Subst(args, hasRecv))
	}
	return np
}

// pathEnv computes paths for the values of one function (closures resolve free variables in the
// enclosing function's environment).
type pathEnv struct {
	prog   *Prog
	fn     *ssa.Function
	parent *pathEnv
	bind   []ssa.Value // bindings of free variables (from MakeClosure in parent)
	memo   map[ssa.Value]*Path
	active map[ssa.Value]bool
	loadAt ssa.Instruction
	allocN map[*ssa.Alloc]int
	stores map[*ssa.Alloc][]*ssa.Store
}

func (p *Prog) env(fn *ssa.Function) *pathEnv {
	e := &pathEnv{prog: p, fn: fn, memo: map[ssa.Value]*Path{}, active: map[ssa.Value]bool{}}
	if fn.Parent() != nil {
		e.parent = p.env(fn.Parent())
		// find the MakeClosure
		for _, b := range fn.Parent().Blocks {
			for _, in := range b.Instrs {
				if mc, ok := in.(*ssa.MakeClosure); ok && mc.Fn == fn {
					e.bind = mc.Bindings
				}
			}
		}
	}
	e.indexAllocs()
	return e
}

func (e *pathEnv) indexAllocs() {
	e.allocN = map[*ssa.Alloc]int{}
	e.stores = map[*ssa.Alloc][]*ssa.Store{}
	n := 0
	var visit func(f *ssa.Function)
	visit = func(f *ssa.Function) {
		for _, b := range f.Blocks {
			for _, in := range b.Instrs {
				switch x := in.(type) {
				case *ssa.Alloc:
					if f == e.fn {
						n++
						e.allocN[x] = n
					}
				case *ssa.Store:
					if a, ok := x.Addr.(*ssa.Alloc); ok {
						e.stores[a] = append(e.stores[a], x)
					}
				}
			}
		}
	}
	visit(e.fn)
}

func constStr(c *ssa.Const) string {
	if c.Value == nil {
		if _, ok := c.Type().Underlying().(*types.Basic); ok || isZeroable(c.Type()) {
			return "zero(" + shortType(c.Type()) + ")"
		}
		return "nil"
	}
	switch c.Value.Kind() {
	case constant.String:
		return fmt.Sprintf("%q", constant.StringVal(c.Value))
	default:
		return c.Value.ExactString()
	}
}

func isZeroable(t types.Type) bool {
	switch t.Underlying().(type) {
	case *types.Struct, *types.Array:
		return true
	}
	return false
}

func shortType(t types.Type) string {
	return types.TypeString(t, func(p *types.Package) string { return p.Name() })
}

func (e *pathEnv) of(v ssa.Value) *Path {
	if v == nil {
		return &Path{Kind: "unknown", Name: "?nil"}
	}
	if p, ok := e.memo[v]; ok {
		return p
	}
	if e.active[v] {
		return &Path{Kind: "unknown", Name: "loop"}
	}
	if ph, ok := v.(*ssa.Phi); ok && isLoopPhi(ph) {
		// a loop-carried value: named by its loop-independent initial values (integer counters
		// simply "iter"); the update inside the loop is not part of the name
		cyc := cyclicEdges(ph)
		p := &Path{Kind: "unknown", Name: "iter"}
		e.memo[v] = p
		var inits []string
		allInt := true
		for i, ed := range ph.Edges {
			if cyc[i] {
				continue
			}
			ip := e.of(ed)
			if _, isInt := constInt(ed); !isInt {
				allInt = false
			}
			inits = append(inits, ip.String())
		}
		if !allInt && len(inits) > 0 {
			sort.Strings(inits)
			var u []string
			for i, s := range inits {
				if i == 0 || s != inits[i-1] {
					u = append(u, s)
				}
			}
			p = &Path{Kind: "unknown", Name: "iter(" + strings.Join(u, "|") + ")"}
			e.memo[v] = p
		}
		return p
	}
	e.active[v] = true
	p := e.compute(v)
	delete(e.active, v)
	e.memo[v] = p
	return p
}

func fnShort(prog *Prog, f *ssa.Function) (name string, method bool) {
	if f.Signature.Recv() != nil {
		return f.Name(), true
	}
	if f.Parent() != nil {
		return "closure", false
	}
	pk := ""
	if f.Pkg != nil {
		pk = f.Pkg.Pkg.Name() + "."
	} else if o := f.Object(); o != nil && o.Pkg() != nil {
		pk = o.Pkg().Name() + "."
	}
	return pk + f.Name(), false
}

func (e *pathEnv) callPath(c *ssa.CallCommon) *Path {
	p := &Path{Kind: "call"}
	if c.IsInvoke() {
		p.Name = c.Method.Name()
		p.Idx = 1
		p.Args = append(p.Args, e.of(c.Value))
		for _, a := range c.Args {
			p.Args = append(p.Args, e.of(a))
		}
		normMessageArgs(c, p)
		return p
	}
	switch f := c.Value.(type) {
	case *ssa.Function:
		name, method := fnShort(e.prog, f)
		p.Name = name
		if method {
			p.Idx = 1
		}
	case *ssa.Builtin:
		p.Name = f.Name()
	case *ssa.MakeClosure:
		p.Name = "closure"
	default:
		p.Name = "dyn"
		p.Args = append(p.Args, e.of(c.Value))
	}
	for _, a := range c.Args {
		p.Args = append(p.Args, e.of(a))
	}
	normMessageArgs(c, p)
	return p
}

// normMessageArgs replaces human-readable message arguments — error texts and their printed
// operands, lock-reason strings — by a placeholder: they are not behaviour any property speaks
// about, and a reworded message must not change a canonical form. What an error *wraps* is kept.
func normMessageArgs(c *ssa.CallCommon, p *Path) {
	dots := &Path{Kind: "const", Name: "…"}
	if c.IsInvoke() {
		if c.Method.Name() == "AcquireInsert" && len(p.Args) == 2 {
			p.Args[1] = dots
		}
		return
	}
	f, ok := c.Value.(*ssa.Function)
	if !ok {
		return
	}
	pkg := ""
	if f.Pkg != nil {
		pkg = f.Pkg.Pkg.Path()
	} else if o := f.Object(); o != nil && o.Pkg() != nil {
		pkg = o.Pkg().Path()
	}
	off := 0
	if f.Signature.Recv() != nil {
		off = 1
	}
	switch {
	case f.Name() == "AcquireInsert" && len(p.Args) == off+1:
		p.Args[off] = dots
	case (pkg == "github.com/pkg/errors" || pkg == "errors") && (f.Name() == "Errorf" || f.Name() == "New"):
		p.Name = "errors.Errorf" // one spelling for "a fresh error with a message"
		p.Args = []*Path{dots}
	case pkg == "github.com/pkg/errors" && (f.Name() == "Wrap" || f.Name() == "Wrapf" || f.Name() == "WithMessage" || f.Name() == "WithMessagef") && len(p.Args) >= 1:
		p.Args = []*Path{p.Args[0], dots}
	case pkg == "fmt" && f.Name() == "Errorf":
		var wrapped *Path
		if k, ok := c.Args[0].(*ssa.Const); ok && k.Value != nil && k.Value.Kind() == constant.String && len(p.Args) == 2 {
			format := constant.StringVal(k.Value)
			verb := -1
			for i := 0; i+1 < len(format); i++ {
				if format[i] != '%' {
					continue
				}
				if format[i+1] == '%' {
					i++
					continue
				}
				verb++
				j := i + 1
				for j < len(format) && strings.ContainsRune("+-# 0123456789.", rune(format[j])) {
					j++
				}
				if j < len(format) && format[j] == 'w' && p.Args[1].Kind == "call" && p.Args[1].Name == "list" && verb < len(p.Args[1].Args) {
					wrapped = p.Args[1].Args[verb]
				}
				i = j
			}
		}
		if wrapped != nil {
			p.Args = []*Path{{Kind: "const", Name: "%w"}, wrapped}
		} else {
			p.Name = "errors.Errorf"
			p.Args = []*Path{dots}
		}
	}
}

func (e *pathEnv) compute(v ssa.Value) *Path {
	switch x := v.(type) {
	case *ssa.Parameter:
		fn := x.Parent()
		for i, prm := range fn.Params {
			if prm == x {
				if fn.Signature.Recv() != nil {
					if i == 0 {
						return &Path{Kind: "recv"}
					}
					return &Path{Kind: "param", Idx: i - 1}
				}
				return &Path{Kind: "param", Idx: i}
			}
		}
		return &Path{Kind: "unknown", Name: "?param"}
	case *ssa.FreeVar:
		if e.parent != nil {
			for i, fv := range e.fn.FreeVars {
				if fv == x && i < len(e.bind) {
					// binding is the address of the captured variable (or the value)
					return e.parent.of(e.bind[i])
				}
			}
		}
		return &Path{Kind: "unknown", Name: "free:" + x.Name()}
	case *ssa.Const:
		return &Path{Kind: "const", Name: constStr(x)}
	case *ssa.Global:
		pk := ""
		if x.Pkg != nil {
			pk = x.Pkg.Pkg.Name() + "."
		}
		return &Path{Kind: "global", Name: pk + x.Name()}
	case *ssa.Function:
		n, _ := fnShort(e.prog, x)
		return &Path{Kind: "global", Name: "func:" + n}
	case *ssa.Builtin:
		return &Path{Kind: "global", Name: "builtin:" + x.Name()}
	case *ssa.FieldAddr:
		return &Path{Kind: "field", Name: fieldName(x.X.Type(), x.Field), Args: []*Path{e.base(x.X)}}
	case *ssa.Field:
		return &Path{Kind: "field", Name: fieldName(x.X.Type(), x.Field), Args: []*Path{e.of(x.X)}}
	case *ssa.UnOp:
		switch x.Op {
		case token.MUL: // load
			e.loadAt = x
			p := e.load(x.X)
			e.loadAt = nil
			return p
		case token.ARROW:
			return &Path{Kind: "unop", Name: "<-", Args: []*Path{e.of(x.X)}}
		default:
			return &Path{Kind: "unop", Name: x.Op.String(), Args: []*Path{e.of(x.X)}}
		}
	case *ssa.BinOp:
		// `for … range s` counts from -1 and tests/uses the incremented value; `for i := 0; …` counts
		// from 0 and uses the counter itself. Both index element `iter`.
		if x.Op == token.ADD {
			if ph, ok := x.X.(*ssa.Phi); ok && isLoopPhi(ph) {
				if c, ok := constInt(x.Y); ok && c == 1 {
					cyc := cyclicEdges(ph)
					rangeStyle := false
					for i, ed := range ph.Edges {
						if cyc[i] {
							continue
						}
						if k, ok := constInt(ed); ok && k == -1 {
							rangeStyle = true
						} else {
							rangeStyle = false
							break
						}
					}
					if rangeStyle {
						return e.of(ph)
					}
				}
			}
		}
		return &Path{Kind: "binop", Name: x.Op.String(), Args: []*Path{e.of(x.X), e.of(x.Y)}}
	case *ssa.Call:
		cp := e.callPath(&x.Call)
		if x.Call.Signature().Results().Len() == 1 && e.isNewHelper(&x.Call) {
			if ip := e.inlineNewHelper(&x.Call, cp, 0); ip != nil {
				return ip
			}
		}
		return cp
	case *ssa.Extract:
		if c, ok := x.Tuple.(*ssa.Call); ok && e.isNewHelper(&c.Call) {
			if ip := e.inlineNewHelper(&c.Call, e.callPath(&c.Call), x.Index); ip != nil {
				return ip
			}
		}
		return &Path{Kind: "extract", Idx: x.Index, Args: []*Path{e.of(x.Tuple)}}
	case *ssa.Phi:
		seen := map[string]*Path{}
		for _, ed := range x.Edges {
			pp := e.of(ed)
			if pp.Kind == "unknown" && pp.Name == "loop" {
				continue
			}
			if pp.Kind == "phi" {
				for _, a := range pp.Args {
					seen[a.String()] = a
				}
				continue
			}
			seen[pp.String()] = pp
		}
		if len(seen) == 1 {
			for _, pp := range seen {
				return pp
			}
		}
		var keys []string
		for k := range seen {
			keys = append(keys, k)
		}
		sort.Strings(keys)
		ph := &Path{Kind: "phi"}
		for _, k := range keys {
			ph.Args = append(ph.Args, seen[k])
		}
		return ph
	case *ssa.Alloc:
		// &local where the local is assigned as a whole: name it by the assigned value
		return e.base(x)
	case *ssa.ChangeType:
		return e.of(x.X)
	case *ssa.Convert:
		if riskyConv(x.X.Type(), x.Type()) {
			return &Path{Kind: "call", Name: "conv:" + shortType(x.Type()), Args: []*Path{e.of(x.X)}}
		}
		return e.of(x.X)
	case *ssa.ChangeInterface:
		return e.of(x.X)
	case *ssa.MakeInterface:
		return e.of(x.X)
	case *ssa.SliceToArrayPointer:
		return e.of(x.X)
	case *ssa.MultiConvert:
		return e.of(x.X)
	case *ssa.IndexAddr:
		return &Path{Kind: "index", Args: []*Path{e.base(x.X), e.of(x.Index)}}
	case *ssa.Index:
		return &Path{Kind: "index", Args: []*Path{e.of(x.X), e.of(x.Index)}}
	case *ssa.Lookup:
		return &Path{Kind: "index", Args: []*Path{e.of(x.X), e.of(x.Index)}}
	case *ssa.Slice:
		if lst := e.arrayLiteral(x); lst != nil {
			return lst
		}
		sp := &Path{Kind: "slice", Args: []*Path{e.base(x.X)}}
		b := func(v ssa.Value) string {
			if v == nil {
				return ""
			}
			return e.of(v).String()
		}
		if x.Low != nil || x.High != nil || x.Max != nil {
			sp.Name = b(x.Low) + ":" + b(x.High)
			if x.Max != nil {
				sp.Name += ":" + b(x.Max)
			}
		} else {
			sp.Name = ":"
		}
		return sp
	case *ssa.TypeAssert:
		return &Path{Kind: "typeassert", Name: shortType(x.AssertedType), Args: []*Path{e.of(x.X)}}
	case *ssa.MakeClosure:
		return &Path{Kind: "closure", Name: "closure:" + e.prog.FuncName(x.Fn.(*ssa.Function))}
	case *ssa.Range:
		return &Path{Kind: "range", Args: []*Path{e.of(x.X)}}
	case *ssa.Next:
		return &Path{Kind: "unop", Name: "next", Args: []*Path{e.of(x.Iter)}}
	case *ssa.MakeMap:
		return &Path{Kind: "alloc", Name: "make(" + shortType(x.Type()) + ")"}
	case *ssa.MakeSlice:
		// length and capacity are part of the value: a buffer sized from untrusted input, or a
		// slice created with a length and then appended to, differ only here
		mp := &Path{Kind: "call", Name: "make", Args: []*Path{{Kind: "const", Name: shortType(x.Type())}, e.of(x.Len)}}
		if x.Cap != x.Len {
			mp.Args = append(mp.Args, e.of(x.Cap))
		}
		return mp
	case *ssa.MakeChan:
		return &Path{Kind: "alloc", Name: "make(" + shortType(x.Type()) + ")"}
	}
	return &Path{Kind: "unknown", Name: fmt.Sprintf("?%T", v)}
}

func fieldName(t types.Type, i int) string {
	if pt, ok := t.Underlying().(*types.Pointer); ok {
		t = pt.Elem()
	}
	if st, ok := t.Underlying().(*types.Struct); ok && i < st.NumFields() {
		return st.Field(i).Name()
	}
	return fmt.Sprintf("f%d", i)
}

// base: the object a FieldAddr/IndexAddr selects from. For a local variable whose address is taken
// and that is assigned as a whole (x := f(); x.Height) it is the assigned value.
func (e *pathEnv) base(v ssa.Value) *Path {
	if a, ok := v.(*ssa.Alloc); ok {
		owner := e
		for owner != nil {
			if _, ok := owner.allocN[a]; ok {
				break
			}
			owner = owner.parent
		}
		if owner != nil && len(owner.allStores(a)) > 0 {
			return e.load(a)
		}
		return e.allocPath(a)
	}
	if fv, ok := v.(*ssa.FreeVar); ok {
		if a, ok := resolveFreeVar(fv).(*ssa.Alloc); ok && a != nil {
			if oe := e.envFor(a.Parent()); len(oe.allStores(a)) > 0 {
				return oe.load(a)
			}
		}
	}
	return e.of(v)
}

// load gives the path of *addr.
func (e *pathEnv) load(addr ssa.Value) *Path {
	switch a := addr.(type) {
	case *ssa.Alloc:
		// local variable whose address is taken: a single store defines it
		owner := e
		for owner != nil {
			if _, ok := owner.allocN[a]; ok {
				break
			}
			owner = owner.parent
		}
		if owner == nil {
			owner = e
		}
		sts := owner.allStores(a)
		if len(sts) == 1 {
			return owner.envFor(sts[0].Parent()).of(sts[0].Val)
		}
		if len(sts) > 1 {
			seen := map[string]*Path{}
			for _, st := range sts {
				pp := owner.envFor(st.Parent()).of(st.Val)
				seen[pp.String()] = pp
			}
			if len(seen) == 1 {
				for _, pp := range seen {
					return pp
				}
			}
			var keys []string
			for k := range seen {
				keys = append(keys, k)
			}
			sort.Strings(keys)
			ph := &Path{Kind: "phi"}
			for _, k := range keys {
				ph.Args = append(ph.Args, seen[k])
			}
			return ph
		}
		return owner.allocPath(a)
	case *ssa.FreeVar:
		// captured variable: binding in the parent is the address
		p := e.of(a)
		if e.parent != nil {
			for i, fv := range e.fn.FreeVars {
				if fv == a && i < len(e.bind) {
					return e.parent.load(e.bind[i])
				}
			}
		}
		return p
	case *ssa.Global:
		return e.of(a)
	case *ssa.FieldAddr:
		// field of a local struct built by a composite literal: a single store to that field defines it
		if al, ok := a.X.(*ssa.Alloc); ok && al.Parent() == e.fn {
			if sts := e.allStores(al); len(sts) == 0 {
				var val ssa.Value
				var valStore ssa.Instruction
				n := 0
				for _, b := range e.fn.Blocks {
					for _, in := range b.Instrs {
						if st, ok := in.(*ssa.Store); ok {
							if fa, ok := st.Addr.(*ssa.FieldAddr); ok && fa.X == al && fa.Field == a.Field {
								val = st.Val
								valStore = in
								n++
							}
						}
					}
				}
				if n == 1 && val != nil && (e.loadAt == nil || instrDominates(valStore, e.loadAt)) {
					return e.of(val)
				}
			}
		}
	}
	return e.of(addr)
}

// allStores: stores to the alloc in this function and in its closures.
func (e *pathEnv) allStores(a *ssa.Alloc) []*ssa.Store {
	var out []*ssa.Store
	var visit func(f *ssa.Function)
	visit = func(f *ssa.Function) {
		for _, b := range f.Blocks {
			for _, in := range b.Instrs {
				if st, ok := in.(*ssa.Store); ok {
					if st.Addr == a {
						out = append(out, st)
					} else if fv, ok := st.Addr.(*ssa.FreeVar); ok && f != e.fn {
						// resolve free var chain to alloc
						if resolveFreeVar(fv) == a {
							out = append(out, st)
						}
					}
				}
			}
		}
		for _, an := range f.AnonFuncs {
			visit(an)
		}
	}
	visit(e.fn)
	return out
}

func resolveFreeVar(fv *ssa.FreeVar) ssa.Value {
	fn := fv.Parent()
	par := fn.Parent()
	if par == nil {
		return nil
	}
	idx := -1
	for i, f := range fn.FreeVars {
		if f == fv {
			idx = i
		}
	}
	if idx < 0 {
		return nil
	}
	for _, b := range par.Blocks {
		for _, in := range b.Instrs {
			if mc, ok := in.(*ssa.MakeClosure); ok && mc.Fn == fn && idx < len(mc.Bindings) {
				bv := mc.Bindings[idx]
				if fv2, ok := bv.(*ssa.FreeVar); ok {
					return resolveFreeVar(fv2)
				}
				return bv
			}
		}
	}
	return nil
}

var envCache = map[*ssa.Function]*pathEnv{}

func (e *pathEnv) envFor(f *ssa.Function) *pathEnv {
	if f == e.fn {
		return e
	}
	if c, ok := envCache[f]; ok {
		return c
	}
	c := e.prog.env(f)
	envCache[f] = c
	return c
}

func (e *pathEnv) allocPath(a *ssa.Alloc) *Path {
	t := a.Type()
	if pt, ok := t.(*types.Pointer); ok {
		t = pt.Elem()
	}
	return &Path{Kind: "alloc", Name: "new(" + shortType(t) + ")"}
}

// Env returns the (cached) path environment of fn.
func (p *Prog) Env(fn *ssa.Function) *pathEnv {
	if c, ok := envCache[fn]; ok {
		return c
	}
	c := p.env(fn)
	envCache[fn] = c
	return c
}

// isLoopPhi: a phi that is reachable from itself through the operand graph (a loop-carried value).
func isLoopPhi(ph *ssa.Phi) bool {
	return len(cyclicEdges(ph)) > 0
}

var cyclicMemo = map[*ssa.Phi][]bool{}

// cyclicEdges tells, per edge of ph, whether the edge value depends on ph.
func cyclicEdges(ph *ssa.Phi) []bool {
	if r, ok := cyclicMemo[ph]; ok {
		return r
	}
	out := make([]bool, len(ph.Edges))
	any := false
	for i, e := range ph.Edges {
		seen := map[ssa.Value]bool{}
		var dep func(v ssa.Value, d int) bool
		dep = func(v ssa.Value, d int) bool {
			if v == ssa.Value(ph) {
				return true
			}
			if v == nil || d > 40 || seen[v] {
				return false
			}
			seen[v] = true
			in, ok := v.(ssa.Instruction)
			if !ok {
				return false
			}
			for _, op := range in.Operands(nil) {
				if op != nil && *op != nil && dep(*op, d+1) {
					return true
				}
			}
			return false
		}
		if e != ssa.Value(ph) && dep(e, 0) {
			out[i] = true
			any = true
		}
		if e == ssa.Value(ph) {
			out[i] = true
			any = true
		}
	}
	if !any {
		out = nil
	}
	cyclicMemo[ph] = out
	return out
}

// riskyConv: an integer conversion that changes signedness or narrows (the ones that can wrap).
func riskyConv(from, to types.Type) bool {
	fb, ok1 := from.Underlying().(*types.Basic)
	tb, ok2 := to.Underlying().(*types.Basic)
	if !ok1 || !ok2 || fb.Info()&types.IsInteger == 0 || tb.Info()&types.IsInteger == 0 {
		return false
	}
	size := func(b *types.Basic) int {
		switch b.Kind() {
		case types.Int8, types.Uint8:
			return 8
		case types.Int16, types.Uint16:
			return 16
		case types.Int32, types.Uint32:
			return 32
		default:
			return 64
		}
	}
	fu, tu := fb.Info()&types.IsUnsigned != 0, tb.Info()&types.IsUnsigned != 0
	if fu != tu {
		return true
	}
	return size(tb) < size(fb)
}

// arrayLiteral: `new([N]T)[:]` whose N elements are each stored exactly once (a slice literal or the
// packed arguments of a variadic call) is rendered by its elements: list(e0,…).
func (e *pathEnv) arrayLiteral(sl *ssa.Slice) *Path {
	al, ok := sl.X.(*ssa.Alloc)
	if !ok || sl.Low != nil || sl.High != nil || sl.Max != nil || al.Parent() != e.fn {
		return nil
	}
	at, ok := al.Type().(*types.Pointer).Elem().Underlying().(*types.Array)
	if !ok || at.Len() == 0 || at.Len() > 16 {
		return nil
	}
	elems := make([]ssa.Value, at.Len())
	count := make([]int, at.Len())
	for _, ref := range *al.Referrers() {
		ia, ok := ref.(*ssa.IndexAddr)
		if !ok {
			continue
		}
		c, ok := ia.Index.(*ssa.Const)
		if !ok {
			return nil
		}
		i := int(c.Int64())
		if i < 0 || i >= len(elems) {
			return nil
		}
		for _, r2 := range *ia.Referrers() {
			if st, ok := r2.(*ssa.Store); ok && st.Addr == ssa.Value(ia) {
				elems[i] = st.Val
				count[i]++
			}
		}
	}
	p := &Path{Kind: "call", Name: "list"}
	for i := range elems {
		if count[i] != 1 {
			return nil
		}
		p.Args = append(p.Args, e.of(elems[i]))
	}
	return p
}

// instrDominates: a executes before b on every path to b (same block earlier, or dominating block).
func instrDominates(a, b ssa.Instruction) bool {
	if a == nil || b == nil {
		return false
	}
	if a.Block() == b.Block() {
		return instrIndex(a) < instrIndex(b)
	}
	return a.Block().Dominates(b.Block())
}

// knownFuncs: the module functions that existed on the reviewed tree (tables/known_funcs.json). A
// function that is not among them is new — typically a helper extracted from an existing function.
var knownFuncs map[string]bool

var inlineDepth int

// inlineNewHelper: the value a call of a *new* helper yields, expressed in the caller's terms — the
// helper's result expression on its non-failing returns with its parameters replaced by the call's
// arguments — when that expression is unique. Statements moved into a helper then keep the
// canonical form they had inline. Functions of the reviewed tree are never inlined.
func (e *pathEnv) inlineNewHelper(c *ssa.CallCommon, cp *Path, idx int) *Path {
	if knownFuncs == nil || c.IsInvoke() || inlineDepth > 1 {
		return nil
	}
	g := c.StaticCallee()
	if g == nil || g.Blocks == nil || g == e.fn || g.Parent() != nil {
		return nil
	}
	name := e.prog.FuncName(g)
	if name == "" || knownFuncs[name] || g.Recover != nil {
		return nil
	}
	inlineDepth++
	defer func() { inlineDepth-- }()
	fi := e.prog.Info(g)
	genv := e.prog.Env(g)
	hasRecv := g.Signature.Recv() != nil
	boolOnly := fi.failKind == "false"
	// the error result itself: the caller tests and forwards it, so its value is what the failing
	// returns produce (a nil on the other returns adds nothing to `err != nil` or `return err`)
	errResult := idx < g.Signature.Results().Len() && isErrorType(g.Signature.Results().At(idx).Type())
	alts := map[string]*Path{}
	var nilAlt *Path
	for _, b := range g.Blocks {
		ret, ok := lastInstr(b).(*ssa.Return)
		if !ok || idx >= len(ret.Results) {
			continue
		}
		if errResult {
			op := retOperand(ret, idx)
			if c, ok := op.(*ssa.Const); ok && c.IsNil() {
				nilAlt = genv.of(op)
				continue
			}
		} else if fi.failExit[b] && !boolOnly {
			continue // the value of a failed call is not used
		}
		rp := genv.of(retOperand(ret, idx)).Subst(cp.Args, hasRecv)
		if rp.Kind == "phi" {
			for _, a := range rp.Args {
				alts[a.String()] = a
			}
			continue
		}
		alts[rp.String()] = rp
	}
	if len(alts) == 0 {
		return nilAlt
	}
	if len(alts) == 1 {
		for _, p := range alts {
			return p
		}
	}
	// several ways to produce the value: the same merge the code had inline
	var keys []string
	for k := range alts {
		keys = append(keys, k)
	}
	sort.Strings(keys)
	ph := &Path{Kind: "phi"}
	for _, k := range keys {
		ph.Args = append(ph.Args, alts[k])
	}
	return ph
}

func (e *pathEnv) isNewHelper(c *ssa.CallCommon) bool {
	if knownFuncs == nil || c.IsInvoke() {
		return false
	}
	g := c.StaticCallee()
	if g == nil || g.Blocks == nil || g == e.fn || g.Parent() != nil {
		return false
	}
	name := e.prog.FuncName(g)
	return name != "" && !knownFuncs[name]
}
