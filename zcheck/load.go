package main

import (
	"fmt"
	"go/token"
	"go/types"
	"os"
	"path/filepath"
	"sort"
	"strings"

	"golang.org/x/tools/go/callgraph"
	"golang.org/x/tools/go/callgraph/cha"
	"golang.org/x/tools/go/callgraph/vta"
	"golang.org/x/tools/go/packages"
	"golang.org/x/tools/go/ssa"
	"golang.org/x/tools/go/ssa/ssautil"
)

const modPath = "github.com/zenon-network/go-zenon"

// Prog is the resolved whole program every rule works on.
type Prog struct {
	RepoDir string
	Fset    *token.FileSet
	Roots   []*packages.Package // module packages (non-test)
	All     map[string]*packages.Package
	SSA     *ssa.Program
	Files   map[string]bool // repo-relative file names parsed

	funcs   map[string]*ssa.Function // canonical name -> function (module functions only)
	allFns  map[*ssa.Function]bool
	chaG    *callgraph.Graph
	vtaG    *callgraph.Graph
	BuildID string // description of build configuration
}

// LoadConfig selects the build configuration and in-memory file replacements.
type LoadConfig struct {
	RepoDir string
	Tags    string
	Env     []string          // extra env (GOOS=..., GOARCH=...)
	Overlay map[string][]byte // absolute file name -> content
}

// Load type-checks the working tree of the repository and builds SSA for the whole program.
// It never writes inside the repository: go.mod/go.sum are copied and passed through -modfile.
func Load(cfg LoadConfig) (*Prog, error) {
	tmp, err := os.MkdirTemp("", "zcheck-mod-")
	if err != nil {
		return nil, err
	}
	defer os.RemoveAll(tmp)
	for _, f := range []struct{ from, to string }{{"go.mod", "z.mod"}, {"go.sum", "z.sum"}} {
		b, err := os.ReadFile(filepath.Join(cfg.RepoDir, f.from))
		if err != nil {
			return nil, fmt.Errorf("cannot read %s: %v", f.from, err)
		}
		if err := os.WriteFile(filepath.Join(tmp, f.to), b, 0o644); err != nil {
			return nil, err
		}
	}
	flags := "-mod=mod -modfile=" + filepath.Join(tmp, "z.mod")
	env := []string{}
	for _, e := range os.Environ() {
		if strings.HasPrefix(e, "GOFLAGS=") || strings.HasPrefix(e, "GOWORK=") || strings.HasPrefix(e, "GOPROXY=") ||
			strings.HasPrefix(e, "GOSUMDB=") || strings.HasPrefix(e, "GOTOOLCHAIN=") {
			continue
		}
		env = append(env, e)
	}
	env = append(env, "GOFLAGS="+flags, "GOWORK=off", "GOPROXY=off", "GOSUMDB=off", "GOTOOLCHAIN=local")
	env = append(env, cfg.Env...)
	pc := &packages.Config{
		Mode:    packages.LoadAllSyntax,
		Dir:     cfg.RepoDir,
		Env:     env,
		Tests:   false,
		Overlay: cfg.Overlay,
	}
	if cfg.Tags != "" {
		pc.BuildFlags = []string{"-tags=" + cfg.Tags}
	}
	pkgs, err := packages.Load(pc, "./...")
	if err != nil {
		return nil, fmt.Errorf("packages.Load: %v", err)
	}
	p := &Prog{RepoDir: cfg.RepoDir, All: map[string]*packages.Package{}, Files: map[string]bool{}}
	p.BuildID = fmt.Sprintf("tags=%q env=%v", cfg.Tags, cfg.Env)
	var loadErrs []string
	packages.Visit(pkgs, nil, func(pk *packages.Package) {
		p.All[pk.PkgPath] = pk
		if strings.HasPrefix(pk.PkgPath, modPath) {
			for _, e := range pk.Errors {
				loadErrs = append(loadErrs, fmt.Sprintf("%s: %v", pk.PkgPath, e))
			}
			if pk.IllTyped {
				loadErrs = append(loadErrs, fmt.Sprintf("%s: ill-typed", pk.PkgPath))
			}
		}
	})
	if len(loadErrs) > 0 {
		sort.Strings(loadErrs)
		if len(loadErrs) > 10 {
			loadErrs = loadErrs[:10]
		}
		return nil, fmt.Errorf("load/type errors in module packages:\n  %s", strings.Join(loadErrs, "\n  "))
	}
	for _, pk := range pkgs {
		if strings.HasPrefix(pk.PkgPath, modPath) {
			p.Roots = append(p.Roots, pk)
			if p.Fset == nil {
				p.Fset = pk.Fset
			}
			for _, f := range pk.CompiledGoFiles {
				if rel, err := filepath.Rel(cfg.RepoDir, f); err == nil {
					p.Files[rel] = true
				}
			}
		}
	}
	if len(p.Roots) == 0 {
		return nil, fmt.Errorf("no module packages loaded from %s", cfg.RepoDir)
	}
	sort.Slice(p.Roots, func(i, j int) bool { return p.Roots[i].PkgPath < p.Roots[j].PkgPath })
	prog, _ := ssautil.AllPackages(pkgs, ssa.InstantiateGenerics)
	prog.Build()
	p.SSA = prog
	theProg = p
	p.allFns = ssautil.AllFunctions(prog)
	p.funcs = map[string]*ssa.Function{}
	for f := range p.allFns {
		if n := p.FuncName(f); n != "" {
			if f.Synthetic != "" && p.funcs[n] != nil {
				continue
			}
			p.funcs[n] = f
		}
	}
	return p, nil
}

func shortPkg(path string) string {
	if path == modPath {
		return "."
	}
	return strings.TrimPrefix(path, modPath+"/")
}

// InModule reports whether f is declared by (or is a closure inside) a module package.
func (p *Prog) InModule(f *ssa.Function) bool {
	for f.Parent() != nil {
		f = f.Parent()
	}
	if f.Pkg != nil {
		return strings.HasPrefix(f.Pkg.Pkg.Path(), modPath)
	}
	if o := f.Object(); o != nil && o.Pkg() != nil {
		return strings.HasPrefix(o.Pkg().Path(), modPath)
	}
	return false
}

// FuncName gives the canonical name of a module function: "<pkg rel path>.<Func>" or
// "<pkg rel path>.(*T).M"; closures get "$n" suffixes. Empty for non-module functions.
func (p *Prog) FuncName(f *ssa.Function) string {
	if f == nil {
		return ""
	}
	if f.Parent() != nil {
		pn := p.FuncName(f.Parent())
		if pn == "" {
			return ""
		}
		idx := 0
		for i, a := range f.Parent().AnonFuncs {
			if a == f {
				idx = i + 1
			}
		}
		return fmt.Sprintf("%s$%d", pn, idx)
	}
	var pkg *types.Package
	if f.Pkg != nil {
		pkg = f.Pkg.Pkg
	} else if o := f.Object(); o != nil {
		pkg = o.Pkg()
	}
	if pkg == nil || !strings.HasPrefix(pkg.Path(), modPath) {
		return ""
	}
	if f.Synthetic != "" && f.Object() == nil && f.Name() != "init" {
		return ""
	}
	sp := shortPkg(pkg.Path())
	if recv := f.Signature.Recv(); recv != nil {
		t := recv.Type()
		ptr := ""
		if pt, ok := t.(*types.Pointer); ok {
			t = pt.Elem()
			ptr = "*"
		}
		tn := "?"
		if nt, ok := t.(*types.Named); ok {
			tn = nt.Obj().Name()
		} else if at, ok := t.(*types.Alias); ok {
			tn = at.Obj().Name()
		}
		if strings.HasPrefix(f.Synthetic, "wrapper") || strings.HasPrefix(f.Synthetic, "bound") || strings.HasPrefix(f.Synthetic, "thunk") {
			return ""
		}
		return fmt.Sprintf("%s.(%s%s).%s", sp, ptr, tn, f.Name())
	}
	return sp + "." + f.Name()
}

// Fn resolves a canonical function name; nil if absent.
func (p *Prog) Fn(name string) *ssa.Function { return p.funcs[name] }

// FuncNames lists all canonical module function names (sorted).
func (p *Prog) FuncNames() []string {
	var out []string
	for n := range p.funcs {
		out = append(out, n)
	}
	sort.Strings(out)
	return out
}

func (p *Prog) CHA() *callgraph.Graph {
	if p.chaG == nil {
		p.chaG = cha.CallGraph(p.SSA)
	}
	return p.chaG
}

func (p *Prog) VTA() *callgraph.Graph {
	if p.vtaG == nil {
		p.vtaG = vta.CallGraph(p.allFns, p.CHA())
	}
	return p.vtaG
}

// Pos renders a position as repo-relative file:line.
func (p *Prog) Pos(pos token.Pos) (string, int) {
	if !pos.IsValid() {
		return "", 0
	}
	ps := p.Fset.Position(pos)
	rel, err := filepath.Rel(p.RepoDir, ps.Filename)
	if err != nil {
		rel = ps.Filename
	}
	return rel, ps.Line
}

func (p *Prog) FnPos(f *ssa.Function) (string, int) {
	if f == nil {
		return "", 0
	}
	if !f.Pos().IsValid() && f.Name() == "init" && f.Pkg != nil && strings.HasPrefix(f.Pkg.Pkg.Path(), modPath) {
		// the synthetic package initialiser (package-level variable initialisation): attributed to
		// the package directory
		return shortPkg(f.Pkg.Pkg.Path()) + "/(package initialiser)", 0
	}
	return p.Pos(f.Pos())
}

// Pkg returns the types.Package of a module-relative package path.
func (p *Prog) Pkg(rel string) *packages.Package {
	if rel == "." {
		return p.All[modPath]
	}
	return p.All[modPath+"/"+rel]
}

// Callers of f in the CHA graph (sound for interface dispatch), as functions.
func (p *Prog) Callers(f *ssa.Function, g *callgraph.Graph) []*callgraph.Edge {
	n := g.Nodes[f]
	if n == nil {
		return nil
	}
	return n.In
}

// Reach computes the functions reachable from the entries in g. Synthetic functions (Pkg == nil)
// are traversed. barrier(f) == true stops traversal below f (f itself is included).
func (p *Prog) Reach(g *callgraph.Graph, entries []*ssa.Function, within func(*ssa.Function) bool, barrier func(*ssa.Function) bool) map[*ssa.Function]*ssa.Function {
	parent := map[*ssa.Function]*ssa.Function{}
	var work []*ssa.Function
	for _, e := range entries {
		if e == nil {
			continue
		}
		if _, ok := parent[e]; !ok {
			parent[e] = nil
			work = append(work, e)
		}
	}
	for len(work) > 0 {
		f := work[0]
		work = work[1:]
		if barrier != nil && barrier(f) && parent[f] != nil {
			continue
		}
		n := g.Nodes[f]
		if n == nil {
			continue
		}
		for _, e := range n.Out {
			c := e.Callee.Func
			if _, ok := parent[c]; ok {
				continue
			}
			if within != nil && !within(c) {
				continue
			}
			parent[c] = f
			work = append(work, c)
		}
		// closures created by f are considered reachable with it
		for _, a := range f.AnonFuncs {
			if _, ok := parent[a]; !ok {
				parent[a] = f
				work = append(work, a)
			}
		}
	}
	return parent
}

// ModuleOrSynthetic is the default "within" filter for regions: module functions plus go/ssa
// synthetic wrappers whose receiver/object lives in the module.
func (p *Prog) ModuleOrSynthetic(f *ssa.Function) bool {
	if p.InModule(f) {
		return true
	}
	if f.Synthetic != "" && f.Pkg == nil {
		// wrapper / bound / thunk: decide from the string form
		return strings.Contains(f.String(), modPath)
	}
	return false
}

func (p *Prog) Chain(parent map[*ssa.Function]*ssa.Function, f *ssa.Function) []string {
	var out []string
	for f != nil {
		n := p.FuncName(f)
		if n == "" {
			n = f.String()
		}
		out = append([]string{n}, out...)
		f = parent[f]
	}
	return out
}
