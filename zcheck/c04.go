package main

// C04 — each send is received at most once; contract inboxes are strict FIFO.

func init() {
	register(&propDef{
		ID: "C04",
		Explain: "Structural necessary conditions of receive-once/FIFO: (1) the verifier rejects a receive whose send is already marked received, and applyReceive credits only after a successful MarkAsReceived on the same hash; marker reader and writer share one key constructor; only applyReceive writes the marker; " +
			"(2) the contract inbox: generateEmbeddedReceive pops the sequencer exactly once, first, on every path; the verifier compares the send's header with SequencerFront of the acknowledged view's mailbox and rejects on nil/mismatch; the three index offsets (pop stores last+1, front reads last+1, push writes size+1 and stores size+1) agree; " +
			"(3) confirmation bookkeeping in momentumStore.AddAccountBlockTransaction: every send is marked unreceived in the recipient's mailbox and pushed to the sequencer iff the recipient is embedded; every non-genesis receive records the receiving block and clears the pending entry; only that function calls the mailbox mutators; " +
			"(4) receiver binding guard under the enforcement-height gate.",
		NotDec: "uniqueness over a whole history with competing forks and across restarts (needs the ledger; relies on the undo machinery of C06/C07).",
		Run:    runC04,
		Controls: []control{
			{Name: "pop-after-lookup", File: "vm/vm.go", Old: "\tvm.context.SequencerPopFront()\n\n\tsendBlock, err := vm.context.MomentumStore().GetAccountBlockByHash(fromBlockHash)\n\tif err != nil {\n\t\treturn nil, nil, err\n\t}\n", New: "\tsendBlock, err := vm.context.MomentumStore().GetAccountBlockByHash(fromBlockHash)\n\tif err != nil {\n\t\treturn nil, nil, err\n\t}\n\tvm.context.SequencerPopFront()\n", ExpectKeySub: "SequencerPopFront"},
			{Name: "front-off-by-one", File: "chain/account/sequencer.go", Old: "return mailbox.SequencerByHeight(last + 1)", New: "return mailbox.SequencerByHeight(last + 2)", ExpectKeySub: "SequencerByHeight"},
			{Name: "push-only-user", File: "chain/momentum/ledger_store.go", Old: "if types.IsEmbeddedAddress(block.ToAddress) {\n\t\t\t\tothStore.SequencerPushBack", New: "if types.IsEmbeddedAddress(block.Address) {\n\t\t\t\tothStore.SequencerPushBack", ExpectKeySub: "SequencerPushBack"},
			{Name: "mark-wrong-hash", File: "vm/vm.go", Old: "err = vm.context.MarkAsReceived(block.FromBlockHash)", New: "err = vm.context.MarkAsReceived(block.Hash)", ExpectKeySub: "MarkAsReceived"},
			{Name: "sequencer-skip-compare", File: "verifier/account_block.go", Old: "if sendBlock.Header() != *nextInLine {", New: "if sendBlock.Header().Address != nextInLine.Address {", ExpectKeySub: "Header()"},
			{Name: "isreceived-other-key", File: "chain/account/received.go", Old: "_, err := as.DB.Get(receivedBlockKey(hash))", New: "_, err := as.DB.Get(getBalanceKey(types.ZnnTokenStandard))", ExpectKeySub: "receivedBlockKey"},
		},
	})
}

func runC04(r *Run) {
	contextProvenanceRules(r) // IsReceived / sequencer are read from the block's previous
	acceptancePathRules(r)    // no block type reaches the VM around the verifier (the sequencer check lives there)
	poolInvalidationRules(r)  // a pooled receive never outlives the momentum that confirmed its send
	r.Alias("$b", "recv.block")
	r.Alias("$send", "recv.momentumStore.GetAccountBlockByHash($b.FromBlockHash)")
	r.Alias("$front", "recv.accountStore.SequencerFront(recv.momentumStore.GetAccountMailbox($b.Address))")
	r.Alias("$blk", "append(list(recv.GetAccountBlock(a0)#0),recv.GetAccountBlock(a0)#0.DescendantBlocks)[iter]")
	r.Alias("$ctx", "eq(nil,recv.DB.Subset(momentum.getAccountStorePrefix(a0.Address)).Apply(a1)) & ne(0,len(a1.Dump()))")
	r.Alias("$lctx", "$ctx & eq(nil,recv.setBlockConfirmationHeight($blk.Hash,(recv.Identifier().Height+1)))")

	// (1) received marker
	r.Guards([]row{
		{F: "verifier.(*accountBlockVerifier).fromHash", C: "T(recv.accountStore.IsReceived($b.FromBlockHash)) @ F($b.IsSendBlock())", Why: "a send that is already received cannot be received again"},
		{F: "verifier.(*accountBlockVerifier).fromHash", C: "eq(nil,$send#0) @ F($b.IsSendBlock())", Why: "only a confirmed send can be received"},
		{F: "verifier.(*accountBlockVerifier).fromHash", C: "le(verifier.ReceiverMismatchEnforcementHeight,recv.frontierStore.Identifier().Height) @ F($b.IsSendBlock()) & ne($b.Address,$send#0.ToAddress)", Why: "only the addressee receives (from the enforcement height on)"},
		{F: "vm.(*VM).applyReceive", C: "ne(nil,recv.context.MarkAsReceived(a0.FromBlockHash))", Pre: []string{".AddBalance"}, Why: "credit only after the send was marked received"},
		{F: "verifier.(*accountBlockVerifier).sequencer", C: "eq(nil,$front) @ T($b.IsReceiveBlock()) & T(types.IsEmbeddedAddress($b.Address))", Why: "nothing queued ⇒ no contract receive"},
		{F: "verifier.(*accountBlockVerifier).sequencer", C: "ne($front,$send#0.Header()) @ T($b.IsReceiveBlock()) & T(types.IsEmbeddedAddress($b.Address))", Why: "a contract receives exactly the next queued send"},
		{F: "verifier.(*accountBlockVerifier).momentumAcknowledged", C: "ne($b.MomentumAcknowledged.Height,recv.momentumStore.GetBlockConfirmationHeight($b.FromBlockHash)#0) @ F(verifier.isBatched($b)) & T(verifier.isContractReceive($b))", Why: "a contract receive acknowledges exactly the confirming momentum, which pins the mailbox the order is evaluated against"},
		{F: "chain/account.(*accountStore).SequencerFront", C: "ne(a0.Address(),recv.address)", Why: "the front is computed against the account's own mailbox"},
	})
	r.Always("vm.(*VM).applyReceive", "recv.context.MarkAsReceived(a0.FromBlockHash)", "the marker is written for the referenced send")
	r.Has("chain/account.(*accountStore).MarkAsReceived", "recv.DB.Put(account.receivedBlockKey(a0),common.Uint64ToBytes(1))", "marker writer uses receivedBlockKey(hash)")
	r.Has("chain/account.(*accountStore).IsReceived", "recv.DB.Get(account.receivedBlockKey(a0))", "marker reader uses the same key constructor")
	r.Has("chain/account.(*accountStore).IsReceived", "return false", "absent marker ⇒ not received")
	r.Has("chain/account.(*accountStore).IsReceived", "return true", "present marker ⇒ received")
	r.Has("chain/account.receivedBlockKey", "common.JoinBytes(list(account.receivedBlockPrefix,a0.Bytes()))", "key = prefix ‖ hash")
	r.WhoMayCall("received-marker writer", []string{"iface:chain/store:Account.MarkAsReceived"}, []string{"vm.(*VM).applyReceive"},
		"only the execution of a user receive may mark a send as received")

	// (2) sequencer
	gen := "vm.(*VM).generateEmbeddedReceive"
	r.Always(gen, "recv.context.SequencerPopFront()", "each generated contract receive consumes exactly one queue entry, also when the call fails and is refunded")
	r.CallCount(gen, ".SequencerPopFront", 1, "exactly one pop per receive: a second site would skip an entry")
	r.FirstEffect(gen, ".SequencerPopFront", "the pop precedes every exit, including the early error return")
	r.WhoMayCall("sequencer pop", []string{"iface:chain/store:Account.SequencerPopFront"}, []string{gen}, "only the contract-receive generator advances the inbox cursor")
	r.Has("chain/account.(*accountStore).SequencerPopFront", "recv.DB.Put(account.sequencerLastReceivedKey,common.Uint64ToBytes((recv.sequencerFrontIndex()+1)))", "pop stores last+1")
	r.Has("chain/account.(*accountStore).SequencerFront", "return a0.SequencerByHeight((recv.sequencerFrontIndex()+1))", "front reads entry last+1")
	r.Has("chain/account.(*accountStore).SequencerFront", "return nil", "empty when last == size")
	r.OnCondMustCall("chain/account.(*accountStore).SequencerFront", "ne(a0.SequencerSize(),recv.sequencerFrontIndex())", ".SequencerByHeight", "a non-empty queue yields its next entry")
	r.Has("chain/account.(*accountStore).sequencerFrontIndex", "recv.DB.Get(account.sequencerLastReceivedKey)", "cursor reader and writer share the key")
	r.Has("chain/account/mailbox.(*mailbox).SequencerPushBack", "recv.DB.Put(mailbox.sequencerNumInsertedKey,common.Uint64ToBytes((recv.SequencerSize()+1)))", "push stores size+1 as the new size")
	r.Has("chain/account/mailbox.(*mailbox).SequencerPushBack", "recv.DB.Put(mailbox.getSequencerHeaderByHeightKey((recv.SequencerSize()+1)),a0.Serialize()#0)", "push writes the header at index size+1")
	r.Has("chain/account/mailbox.(*mailbox).SequencerByHeight", "recv.DB.Get(mailbox.getSequencerHeaderByHeightKey(a0))", "entries are read with the key constructor they were written with")
	r.Has("chain/account/mailbox.(*mailbox).SequencerSize", "recv.DB.Get(mailbox.sequencerNumInsertedKey)", "size reader and writer share the key")

	// (3) confirmation bookkeeping
	add := "chain/momentum.(*momentumStore).AddAccountBlockTransaction"
	r.Guards([]row{
		{F: add, C: "ne(nil,recv.getAccountMailbox($blk.ToAddress).MarkAsUnreceived($blk.Hash)) @ $lctx & T($blk.IsSendBlock())", Why: "every confirmed send becomes receivable in the addressee's mailbox"},
		{F: add, C: "ne(nil,recv.getAccountMailbox($blk.Address).MarkAsReceived($blk.FromBlockHash)) @ $lctx & F($blk.IsSendBlock()) & ne(1,$blk.BlockType)", Why: "a confirmed receive clears the pending entry of its send"},
		{F: add, C: "ne(nil,recv.addAccountBlockHeader($blk.Header())) @ $ctx", Why: "every block of the batch (including descendants) is indexed"},
		{F: add, C: "eq(nil,recv.GetAccountBlockByHash($blk.FromBlockHash)#0) @ $lctx & F($blk.IsSendBlock()) & ne(1,$blk.BlockType)", Why: "a receive without its send is refused"},
	})
	r.Has(add, "recv.getAccountMailbox($blk.ToAddress).SequencerPushBack($blk.Header())", "sends to contracts are queued in confirmation order")
	r.OnCondMustCall(add, "T(types.IsEmbeddedAddress($blk.ToAddress))", ".SequencerPushBack", "a send is queued iff its addressee is an embedded contract")
	r.Has(add, "recv.getAccountMailbox(recv.GetAccountBlockByHash($blk.FromBlockHash)#0.Address).MarkBlockThatReceives($blk.FromBlockHash,$blk.Header())", "the receiving block is recorded against the send")
	r.Has(add, "recv.setBlockConfirmationHeight($blk.Hash,(recv.Identifier().Height+1))", "confirmation height = this momentum")
	r.Has(add, "store new([1]*nom.AccountBlock)[0] = recv.GetAccountBlock(a0)#0", "the batch starts with the block itself")
	r.Has(add, "append(list(recv.GetAccountBlock(a0)#0),recv.GetAccountBlock(a0)#0.DescendantBlocks)", "descendants are processed after their parent, in order")
	r.WhoMayCall("mailbox mutators",
		[]string{"iface:chain/store:AccountMailbox.MarkAsUnreceived", "iface:chain/store:AccountMailbox.MarkAsReceived", "iface:chain/store:AccountMailbox.MarkBlockThatReceives", "iface:chain/store:AccountMailbox.SequencerPushBack"},
		[]string{add}, "mailboxes change only when a momentum confirms blocks")
	r.Has("chain/account/mailbox.(*mailbox).MarkAsUnreceived", "recv.DB.Put(mailbox.getPendingBlockKey(a0),common.Uint64ToBytes(1))", "pending entry written under the pending key")
	r.Has("chain/account/mailbox.(*mailbox).MarkAsReceived", "recv.DB.Delete(mailbox.getPendingBlockKey(a0))", "pending entry cleared under the same key")
}
