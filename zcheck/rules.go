package main

import (
	"fmt"
	"go/types"
	"regexp"
	"sort"
	"strings"

	"golang.org/x/tools/go/callgraph"
	"golang.org/x/tools/go/ssa"
)

// ---------------------------------------------------------------------------------------------
// K3: guard specs

type inlGuard struct {
	c     Cond
	ctx   []Cond
	cond  string
	guard *Guard
	via   []string
}

// failurePropagates: a failure exit of the callee at call site cs makes the caller fail too.
func (r *Run) failurePropagates(caller *ssa.Function, cs *CallSite, callee *ssa.Function) bool {
	cfi := r.P.Info(callee)
	fi := r.P.Info(caller)
	v := cs.Instr.Value()
	switch cfi.failKind {
	case "panic":
		return true
	case "error":
		if v == nil {
			return false
		}
		// the error value
		var errVals []ssa.Value
		ei := errResultIndex(callee.Signature)
		if callee.Signature.Results().Len() == 1 {
			errVals = append(errVals, v)
		} else {
			for _, ref := range *v.Referrers() {
				if ex, ok := ref.(*ssa.Extract); ok && ex.Index == ei {
					errVals = append(errVals, ex)
				}
			}
		}
		for _, ev := range errVals {
			for _, ref := range *ev.Referrers() {
				switch x := ref.(type) {
				case *ssa.Return:
					// returned directly as the caller's error (or only result)
					_ = x
					return true
				case *ssa.Store:
					if storeIsSpilledReturn(x) {
						return true
					}
				case *ssa.Phi:
					for _, r2 := range *x.Referrers() {
						if _, ok := r2.(*ssa.Return); ok {
							return true
						}
					}
				}
			}
		}
		if from, okSucc := r.P.nilErrEdge(cs.Instr); from != nil {
			// the non-nil edge must be rejecting
			var other *ssa.BasicBlock
			for _, s := range from.Succs {
				if s != okSucc {
					other = s
				}
			}
			if other != nil && !fi.canOK[other] {
				return true
			}
		}
		// DealWithErr(err) directly after
		for _, ev := range errVals {
			for _, ref := range *ev.Referrers() {
				if c, ok := ref.(*ssa.Call); ok {
					if f := c.Call.StaticCallee(); f != nil && f.Name() == "DealWithErr" {
						return true
					}
				}
				if ci, ok := ref.(*ssa.ChangeInterface); ok {
					for _, r2 := range *ci.Referrers() {
						if c, ok := r2.(*ssa.Call); ok {
							if f := c.Call.StaticCallee(); f != nil && f.Name() == "DealWithErr" {
								return true
							}
						}
					}
				}
				if mi, ok := ref.(*ssa.MakeInterface); ok {
					for _, r2 := range *mi.Referrers() {
						if c, ok := r2.(*ssa.Call); ok {
							if f := c.Call.StaticCallee(); f != nil && f.Name() == "DealWithErr" {
								return true
							}
						}
					}
				}
			}
		}
		return false
	case "false":
		if v == nil {
			return false
		}
		for _, ref := range *v.Referrers() {
			switch x := ref.(type) {
			case *ssa.Return:
				return true
			case *ssa.If:
				if !fi.canOK[x.Block().Succs[1]] {
					return true
				}
			case *ssa.UnOp:
				for _, r2 := range *x.Referrers() {
					if ifi, ok := r2.(*ssa.If); ok && !fi.canOK[ifi.Block().Succs[0]] {
						return true
					}
				}
			}
		}
	}
	return false
}

// inlinedRejects lists the reject conditions of fn and, expressed in fn's own paths, those of the
// module functions it calls statically (depth-bounded) when their failure makes fn fail.
func (r *Run) inlinedRejects(fn *ssa.Function, depth int, seen map[*ssa.Function]bool) []inlGuard {
	var out []inlGuard
	if seen[fn] {
		return nil
	}
	seen[fn] = true
	defer delete(seen, fn)
	fi := r.P.Info(fn)
	for _, g := range fi.guards {
		if g.Reject != "" {
			out = append(out, inlGuard{g.RejCond, g.Ctx, g.Full(), g, nil})
		}
	}
	if depth <= 0 {
		return out
	}
	for _, cs := range r.P.Calls(fn, false) {
		callee := cs.Instr.Common().StaticCallee()
		if callee == nil || callee.Blocks == nil || !r.P.InModule(callee) || callee.Parent() != nil {
			continue
		}
		if !r.failurePropagates(fn, cs, callee) {
			continue
		}
		args := cs.Path.Args
		hasRecv := callee.Signature.Recv() != nil
		for _, ig := range r.inlinedRejects(callee, depth-1, seen) {
			n := ig.c.Subst(args, hasRecv)
			var nctx []Cond
			for _, x := range ig.ctx {
				nctx = append(nctx, x.Subst(args, hasRecv))
			}
			// the context of the call site in the caller applies as well
			nctx = append(nctx, r.blockCtx(fn, cs.Instr.Block())...)
			out = append(out, inlGuard{n, nctx, fullCond(n, nctx), ig.guard, append([]string{r.P.FuncName(callee)}, ig.via...)})
		}
	}
	return out
}

// blockCtx: conditions of plain branches of fn that every path to block b satisfies.
func (r *Run) blockCtx(fn *ssa.Function, b *ssa.BasicBlock) []Cond {
	fi := r.P.Info(fn)
	var out []Cond
	for _, c := range fi.guards {
		if c.Reject != "" || c.Block.Succs[0] == c.Block.Succs[1] {
			continue
		}
		if isLoopHeader(c.Block) {
			continue
		}
		if edgeDominates(c.Block, c.Block.Succs[0], b) {
			out = append(out, c.Cond)
		} else if edgeDominates(c.Block, c.Block.Succs[1], b) {
			out = append(out, c.Cond.Negate())
		}
	}
	return out
}

// GuardOpt tunes a guard obligation.
type GuardOpt struct {
	// Before: call matchers (canonical callee, or ".Method") that must only be reachable through
	// the accept edge of the guard (in the function that contains the guard).
	Before []string
	// Alt: alternative canonical conditions accepted as equivalent.
	Alt []string
	// NoInline: look only in the named function.
	NoInline bool
}

// Guard: fn must reject when cond holds.
func (r *Run) Guard(fnName, cond, why string, opts ...GuardOpt) *Guard {
	var opt GuardOpt
	if len(opts) > 0 {
		opt = opts[0]
	}
	fn := r.fn(fnName)
	if fn == nil {
		return nil
	}
	file, line := r.P.FnPos(fn)
	depth := 3
	if opt.NoInline {
		depth = 0
	}
	cond = normFull(normCondText(cond))
	want := []string{cond}
	for _, a := range opt.Alt {
		want = append(want, normFull(normCondText(a)))
	}
	igs := r.inlinedRejects(fn, depth, map[*ssa.Function]bool{})
	for _, ig := range igs {
		for _, w := range want {
			if ig.cond == w {
				g := ig.guard
				okBefore := true
				for _, b := range opt.Before {
					gfn := g.Fn
					for _, cs := range r.P.FindCalls(gfn, b, false) {
						if !g.DominatesInContext(cs.Instr.Block()) {
							okBefore = false
							r.viol("K2-guard-dominates", fnName, "reject-if "+cond+" before "+b,
								fmt.Sprintf("the guard `reject-if %s` (%s:%d) does not dominate the effect %s at %s:%d: a path reaches the effect without passing the accepting edge of the guard", cond, g.File, g.Line, b, cs.File, cs.Line), why, cs.File, cs.Line)
						}
					}
					if okBefore {
						if len(r.P.FindCalls(gfn, b, false)) == 0 && gfn == fn && r.newHelperCalls(fn, b, g) {
							continue // the effect now lives in a new helper whose call the guard precedes
						}
						if len(r.P.FindCalls(gfn, b, false)) == 0 && gfn == fn {
							r.viol("K2-guard-dominates", fnName, "reject-if "+cond+" before "+b, "the effect "+b+" that the guard must precede is not called in "+fnName+" (anchor unresolved)", why, file, line)
							okBefore = false
						}
					}
				}
				if okBefore && len(opt.Before) > 0 {
					r.pass("K2-guard-dominates", fnName, "reject-if "+cond+" before "+strings.Join(opt.Before, ","), "accept edge dominates every call of "+strings.Join(opt.Before, ","), why, g.File, g.Line)
				}
				via := ""
				if len(ig.via) > 0 {
					via = " (via " + strings.Join(ig.via, " → ") + ")"
				}
				r.pass("K3-guard", fnName, "reject-if "+cond, "found at "+fmt.Sprintf("%s:%d", g.File, g.Line)+via, why, g.File, g.Line)
				return g
			}
		}
	}
	// conjunct-set equality: `reject-if c @ a & b` is the conjunction {a, b, c}; which conjunct is
	// tested last is a matter of nesting (`if a { if c {fail} }` vs `if !c {…}; if a {fail}`)
	wantSets := map[string]bool{}
	for _, w := range want {
		wantSets[conjunctKey(w)] = true
		wantSets["~"+dataConjunctKey(w)] = true
	}
	for _, ig := range igs {
		if wantSets[conjunctKey(ig.cond)] || wantSets["~"+dataConjunctKey(ig.cond)] {
			g := ig.guard
			ok := true
			for _, b := range opt.Before {
				for _, cs := range r.P.FindCalls(g.Fn, b, false) {
					if !g.DominatesInContext(cs.Instr.Block()) {
						ok = false
					}
				}
			}
			if ok {
				r.pass("K3-guard", fnName, "reject-if "+cond, fmt.Sprintf("found at %s:%d as the same conjunction tested in another order (%s)", g.File, g.Line, ig.cond), why, g.File, g.Line)
				return g
			}
		}
	}
	// tail propagation: `return f()` rejects exactly when f's error is non-nil, like
	// `if err := f(); err != nil { return err }; return nil`
	if ret, at := r.tailPropagates(fn, want); ret != nil {
		blocked := false
		for _, b := range opt.Before {
			if len(r.P.FindCalls(fn, b, false)) > 0 {
				blocked = true // the effect cannot come after a return
			}
		}
		if !blocked {
			f2, l2 := r.P.Pos(ret.Pos())
			r.pass("K3-guard", fnName, "reject-if "+cond, fmt.Sprintf("the error is returned as the function's result at %s:%d (%s)", f2, l2, at), why, f2, l2)
			return nil
		}
	}
	// diagnose: list near misses (same operand set, different relation)
	var near []string
	for _, ig := range igs {
		if sameOperands(ig.cond, cond) {
			near = append(near, ig.cond)
		}
	}
	d := fmt.Sprintf("guard missing or weakened: %s no longer rejects when %s", fnName, cond)
	if len(near) > 0 {
		d += "; the function now rejects on: " + strings.Join(near, " ; ")
	}
	r.viol("K3-guard", fnName, "reject-if "+cond, d, why, file, line)
	return nil
}

func operandsOf(c string) string {
	i := strings.Index(c, "(")
	if i < 0 {
		return c
	}
	body := c[i+1 : len(c)-1]
	// split at top-level comma
	depth := 0
	parts := []string{}
	last := 0
	for j, ch := range body {
		switch ch {
		case '(', '[':
			depth++
		case ')', ']':
			depth--
		case ',':
			if depth == 0 {
				parts = append(parts, body[last:j])
				last = j + 1
			}
		}
	}
	parts = append(parts, body[last:])
	sort.Strings(parts)
	return strings.Join(parts, "\x00")
}

func sameOperands(a, b string) bool { return operandsOf(a) == operandsOf(b) }

// ---------------------------------------------------------------------------------------------
// K2: must-pass-through / ordering

// reachableAvoiding: blocks reachable from entry when the given edges are removed and the given
// blocks are not entered.
func reachableAvoiding(fn *ssa.Function, cutEdge func(from, to *ssa.BasicBlock) bool, cutBlock func(b *ssa.BasicBlock) bool) map[*ssa.BasicBlock]bool {
	seen := map[*ssa.BasicBlock]bool{}
	if len(fn.Blocks) == 0 {
		return seen
	}
	var stack []*ssa.BasicBlock
	if cutBlock == nil || !cutBlock(fn.Blocks[0]) {
		stack = append(stack, fn.Blocks[0])
		seen[fn.Blocks[0]] = true
	}
	for len(stack) > 0 {
		b := stack[len(stack)-1]
		stack = stack[:len(stack)-1]
		for _, s := range b.Succs {
			if cutEdge != nil && cutEdge(b, s) {
				continue
			}
			if cutBlock != nil && cutBlock(s) {
				continue
			}
			if !seen[s] {
				seen[s] = true
				stack = append(stack, s)
			}
		}
	}
	return seen
}

// MustPass: every success exit of fn is reached only through a call matching `match` whose
// failure (if it returns an error) does not continue to success.
// Implementation: remove (a) for calls with an error result, every edge out of the call's error
// test other than the nil edge is kept but the nil edge is cut; (b) for calls without a tested
// error, the block is split at the call: the block is treated as cut. If a success exit is still
// reachable from entry, a path bypasses the call.
func (r *Run) MustPass(fnName, match, why string) bool {
	fn := r.fn(fnName)
	if fn == nil {
		return false
	}
	file, line := r.P.FnPos(fn)
	sites := r.P.FindCalls(fn, match, false)
	construct := "success only through " + match
	if len(sites) == 0 {
		r.viol("K2-must-pass", fnName, construct, fnName+" no longer calls "+match+" at all", why, file, line)
		return false
	}
	fi := r.P.Info(fn)
	type edge struct{ a, b *ssa.BasicBlock }
	cutE := map[edge]bool{}
	cutB := map[*ssa.BasicBlock]bool{}
	for _, cs := range sites {
		// result returned directly: `return X(...)` — the call block is an exit; cutting the
		// block is right (its success is the function's success through X)
		from, okSucc := r.P.nilErrEdge(cs.Instr)
		if from != nil {
			cutE[edge{from, okSucc}] = true
		} else {
			cutB[cs.Instr.Block()] = true
		}
	}
	reach := reachableAvoiding(fn, func(a, b *ssa.BasicBlock) bool { return cutE[edge{a, b}] }, func(b *ssa.BasicBlock) bool { return cutB[b] })
	for b := range fi.okBlock {
		if reach[b] {
			f2, l2 := r.P.Pos(lastInstr(b).Pos())
			r.viol("K2-must-pass", fnName, construct, fmt.Sprintf("a path from the entry of %s reaches the success return at %s:%d without a successful call to %s", fnName, f2, l2, match), why, f2, l2)
			return false
		}
	}
	// when the error is not tested and not returned, the call can fail silently
	for _, cs := range sites {
		callee := cs.Instr.Common()
		if errResultIndex(callee.Signature()) >= 0 {
			from, _ := r.P.nilErrEdge(cs.Instr)
			if from == nil && !returnsCallResult(cs.Instr) && !errToDealWithErr(cs.Instr) {
				r.viol("K2-must-pass", fnName, construct, fmt.Sprintf("the error returned by %s at %s:%d is neither tested nor returned", match, cs.File, cs.Line), why, cs.File, cs.Line)
				return false
			}
		}
	}
	r.pass("K2-must-pass", fnName, construct, fmt.Sprintf("%d call site(s); no success exit reachable when their success edges are cut", len(sites)), why, sites[0].File, sites[0].Line)
	return true
}

func returnsCallResult(ci ssa.CallInstruction) bool {
	v := ci.Value()
	if v == nil {
		return false
	}
	var vals []ssa.Value
	vals = append(vals, v)
	for _, ref := range *v.Referrers() {
		if ex, ok := ref.(*ssa.Extract); ok {
			vals = append(vals, ex)
		}
	}
	for _, x := range vals {
		for _, ref := range *x.Referrers() {
			switch y := ref.(type) {
			case *ssa.Return:
				return true
			case *ssa.Phi:
				for _, r2 := range *y.Referrers() {
					if _, ok := r2.(*ssa.Return); ok {
						return true
					}
				}
			case *ssa.Store:
				// named result spilled because of defer
				if storeIsSpilledReturn(y) {
					return true
				}
			}
		}
	}
	return false
}

// Order: in fn every call matching `second` is reachable only after a successful call matching
// `first` (the nil-error edge of first, or simply after the call when it returns no error).
func (r *Run) Order(fnName, first, second, why string) bool {
	fn := r.fn(fnName)
	if fn == nil {
		return false
	}
	file, line := r.P.FnPos(fn)
	construct := first + " before " + second
	a := r.P.FindCalls(fn, first, false)
	b := r.P.FindCalls(fn, second, false)
	if len(a) == 0 || len(b) == 0 {
		r.viol("K2-order", fnName, construct, fmt.Sprintf("%s: expected calls to both %s (%d found) and %s (%d found)", fnName, first, len(a), second, len(b)), why, file, line)
		return false
	}
	type edge struct{ a, b *ssa.BasicBlock }
	cutE := map[edge]bool{}
	cutAfter := map[*ssa.BasicBlock]int{} // block -> index of the call instr
	for _, cs := range a {
		from, okSucc := r.P.nilErrEdge(cs.Instr)
		if from != nil {
			cutE[edge{from, okSucc}] = true
		} else {
			cutAfter[cs.Instr.Block()] = instrIndex(cs.Instr)
		}
	}
	reach := reachableAvoiding(fn, func(x, y *ssa.BasicBlock) bool {
		if cutE[edge{x, y}] {
			return true
		}
		if _, ok := cutAfter[x]; ok {
			return true // leaving a block that contains `first` (untested): everything after counts as after
		}
		return false
	}, nil)
	for _, cs := range b {
		blk := cs.Instr.Block()
		if !reach[blk] {
			continue
		}
		if idx, ok := cutAfter[blk]; ok && instrIndex(cs.Instr) > idx {
			continue
		}
		// same block as a tested first call: the test is after the call, so second in the same block before the test
		bad := true
		for _, ca := range a {
			if ca.Instr.Block() == blk && instrIndex(ca.Instr) < instrIndex(cs.Instr) {
				if from, _ := r.P.nilErrEdge(ca.Instr); from == nil {
					bad = false
				}
			}
		}
		if bad {
			r.viol("K2-order", fnName, construct, fmt.Sprintf("%s at %s:%d can be reached without a preceding successful %s", second, cs.File, cs.Line, first), why, cs.File, cs.Line)
			return false
		}
	}
	r.pass("K2-order", fnName, construct, fmt.Sprintf("%d×%s dominate %d×%s", len(a), first, len(b), second), why, b[0].File, b[0].Line)
	return true
}

func instrIndex(in ssa.Instruction) int {
	for i, x := range in.Block().Instrs {
		if x == in {
			return i
		}
	}
	return -1
}

// ---------------------------------------------------------------------------------------------
// K1: who may call

// CallersOf lists module functions that (may) call any of the targets: CHA edges plus static
// references that let a function value escape (address taken).
func (r *Run) callersOf(targets map[*ssa.Function]bool, g *callgraph.Graph) map[string][]*callgraph.Edge {
	out := r.callersOfRec(targets, g, map[*ssa.Function]bool{})
	for k := range out {
		es := out[k]
		sort.SliceStable(es, func(i, j int) bool {
			var pi, pj int
			if es[i].Site != nil {
				pi = int(es[i].Site.Pos())
			}
			if es[j].Site != nil {
				pj = int(es[j].Site.Pos())
			}
			return pi < pj
		})
	}
	return out
}

func (r *Run) callersOfRec(targets map[*ssa.Function]bool, g *callgraph.Graph, visited map[*ssa.Function]bool) map[string][]*callgraph.Edge {
	out := map[string][]*callgraph.Edge{}
	for t := range targets {
		if visited[t] {
			continue
		}
		visited[t] = true
		n := g.Nodes[t]
		if n == nil {
			continue
		}
		for _, e := range n.In {
			caller := e.Caller.Func
			// pass through synthetic wrappers
			name := r.P.FuncName(caller)
			if name == "" {
				if caller.Synthetic != "" {
					// attribute to the callers of the wrapper
					sub := r.callersOfRec(map[*ssa.Function]bool{caller: true}, g, visited)
					for k, v := range sub {
						out[k] = append(out[k], v...)
					}
				}
				continue
			}
			out[name] = append(out[name], e)
		}
	}
	return out
}

// implementersOf resolves "pkg.Iface.Method" to the concrete module methods implementing it.
func (r *Run) methodImpls(ifacePkg, ifaceName, method string) []*ssa.Function {
	pk := r.P.Pkg(ifacePkg)
	if pk == nil {
		return nil
	}
	obj := pk.Types.Scope().Lookup(ifaceName)
	if obj == nil {
		return nil
	}
	iface, ok := obj.Type().Underlying().(*types.Interface)
	if !ok {
		return nil
	}
	var out []*ssa.Function
	for _, root := range r.P.Roots {
		sc := root.Types.Scope()
		for _, n := range sc.Names() {
			tn, ok := sc.Lookup(n).(*types.TypeName)
			if !ok || tn.IsAlias() {
				continue
			}
			if _, isIface := tn.Type().Underlying().(*types.Interface); isIface {
				continue
			}
			for _, t := range []types.Type{tn.Type(), types.NewPointer(tn.Type())} {
				if types.Implements(t, iface) {
					ms := r.P.SSA.MethodSets.MethodSet(t)
					sel := ms.Lookup(tn.Pkg(), method)
					if sel == nil {
						continue
					}
					if f := r.P.SSA.MethodValue(sel); f != nil {
						// unwrap promoted wrappers to the declared method when it is a module method
						out = append(out, f)
					}
					break
				}
			}
		}
	}
	sort.Slice(out, func(i, j int) bool { return out[i].String() < out[j].String() })
	return out
}

// WhoMayCall: the set of module functions with a call edge (CHA) to any target must be within
// allowed (canonical names; a trailing "*" matches a prefix). Packages in the scaffolding set are
// outside the universe.
func (r *Run) WhoMayCall(construct string, targetNames []string, allowed []string, why string) {
	targets := map[*ssa.Function]bool{}
	for _, tn := range targetNames {
		if strings.HasPrefix(tn, "iface:") {
			// iface:<pkg>:<Iface>.<Method>
			parts := strings.SplitN(strings.TrimPrefix(tn, "iface:"), ":", 2)
			im := strings.SplitN(parts[1], ".", 2)
			impls := r.methodImpls(parts[0], im[0], im[1])
			if len(impls) == 0 {
				r.viol("unresolved-anchor", "", "iface "+tn, "no implementation of "+tn+" found", why, "", 0)
			}
			for _, f := range impls {
				targets[f] = true
			}
			continue
		}
		f := r.fn(tn)
		if f != nil {
			targets[f] = true
		}
	}
	if len(targets) == 0 {
		return
	}
	callers := r.callersOf(targets, r.P.CHA())
	var names []string
	for n := range callers {
		names = append(names, n)
	}
	sort.Strings(names)
	nOK := 0
	for _, n := range names {
		if isScaffolding(n) {
			continue
		}
		// calls among the targets themselves (wrappers delegating) are fine
		if f := r.P.Fn(n); f != nil && targets[f] {
			continue
		}
		if matchAny(n, allowed) {
			nOK++
			e := callers[n][0]
			file, line := "", 0
			if e.Site != nil {
				file, line = r.P.Pos(e.Site.Pos())
			}
			r.pass("K1-who-may-call", n, construct, "allowed caller", why, file, line)
			r.NCalls += len(callers[n])
			continue
		}
		e := callers[n][0]
		file, line := "", 0
		if e.Site != nil {
			file, line = r.P.Pos(e.Site.Pos())
		}
		// a helper that is new relative to the reviewed tree acts for its callers: allowed when every
		// one of its own callers is
		if f := r.P.Fn(n); f != nil && knownFuncs != nil && !knownFuncs[n] {
			up := r.callersOf(map[*ssa.Function]bool{f: true}, r.P.CHA())
			okAll := len(up) > 0
			for un := range up {
				if !matchAny(un, allowed) && !isScaffolding(un) {
					okAll = false
				}
			}
			if okAll {
				nOK++
				r.pass("K1-who-may-call", n, construct, "new helper called only by allowed callers", why, file, line)
				continue
			}
		}
		r.viol("K1-who-may-call", n, construct, fmt.Sprintf("%s calls %s (%s) but is not in the set of functions allowed to: %s", n, r.P.FuncName(e.Callee.Func), construct, strings.Join(allowed, ", ")), why, file, line)
	}
	if nOK == 0 {
		r.viol("vacuous-rule", "", construct, "no caller of "+strings.Join(targetNames, ",")+" found at all: the slot enumerates to zero", why, "", 0)
	}
}

func isScaffolding(fn string) bool {
	return strings.HasPrefix(fn, "zenon/mock.") || strings.HasPrefix(fn, "chain/genesis/mock.") || strings.HasPrefix(fn, "vm/embedded/tests.") || strings.HasPrefix(fn, "common/db.(*debug") || strings.HasPrefix(fn, "common/db.Debug")
}

func matchAny(n string, pats []string) bool {
	for _, p := range pats {
		if strings.HasSuffix(p, "*") {
			if strings.HasPrefix(n, strings.TrimSuffix(p, "*")) {
				return true
			}
		} else if n == p || strings.HasPrefix(n, p+"$") {
			return true
		}
	}
	return false
}

// ---------------------------------------------------------------------------------------------
// K4: argument provenance

// ArgIs: in fn, every call matching `match` has argument i (receiver excluded) with the given
// canonical path (any of the alternatives).
func (r *Run) ArgIs(fnName, match string, i int, want []string, why string) {
	fn := r.fn(fnName)
	if fn == nil {
		return
	}
	file, line := r.P.FnPos(fn)
	sites := r.P.FindCalls(fn, match, true)
	construct := fmt.Sprintf("arg%d of %s = %s", i, match, want[0])
	if len(sites) == 0 {
		r.viol("K4-provenance", fnName, construct, fnName+" no longer calls "+match, why, file, line)
		return
	}
	for _, cs := range sites {
		cpaths := []*Path{cs.Path}
		if !calleeMatches1(cs, match) {
			// the call lives in a helper that is new relative to the reviewed tree: its arguments,
			// with the helper's parameters replaced by what the caller passes
			if in := innerCallPaths(cs, match); len(in) > 0 {
				cpaths = in
			}
		}
		for _, cp := range cpaths {
			args := cp.Args
			if cp.Idx == 1 {
				args = args[1:]
			}
			if i >= len(args) {
				r.viol("K4-provenance", fnName, construct, "call has fewer arguments than expected", why, cs.File, cs.Line)
				return
			}
			got := args[i].String()
			ok := false
			for _, w := range want {
				if got == w {
					ok = true
				}
			}
			if !ok {
				r.viol("K4-provenance", fnName, construct, fmt.Sprintf("argument %d of %s at %s:%d is `%s`, expected `%s`", i, match, cs.File, cs.Line, got, strings.Join(want, "` or `")), why, cs.File, cs.Line)
				return
			}
		}
	}
	r.NCalls += len(sites)
	r.pass("K4-provenance", fnName, construct, fmt.Sprintf("%d call site(s)", len(sites)), why, sites[0].File, sites[0].Line)
}

// innerCallPaths: for a call of a new helper that stands for the calls it makes, the matching
// inner calls expressed in the caller's terms.
func innerCallPaths(cs *CallSite, match string) []*Path {
	if knownFuncs == nil || theProg == nil || cs.Instr == nil {
		return nil
	}
	h := cs.Instr.Common().StaticCallee()
	if h == nil || h.Blocks == nil {
		return nil
	}
	if n := theProg.FuncName(h); n == "" || knownFuncs[n] {
		return nil
	}
	hasRecv := h.Signature.Recv() != nil
	var out []*Path
	for _, hc := range theProg.Calls(h, false) {
		if calleeMatches1(hc, match) {
			out = append(out, hc.Path.Subst(cs.Path.Args, hasRecv))
		}
	}
	return out
}

// ---------------------------------------------------------------------------------------------
// table helpers

type row struct {
	F   string   // function
	C   string   // canonical reject condition (with context) — may use aliases
	Why string   // reason
	Pre []string // effects that the guard must dominate
	Alt []string
}

// X expands aliases ($name) in a spec string.
func (r *Run) X(s string) string {
	return normCondText(r.expand(s))
}

// normCondText brings a wanted condition text (with optional " @ ctx & ctx") to the same integer
// normal form Cond.String produces (le against a constant → lt, length tests → eq/ne 0). Texts
// that are not complete conditions (prefixes, effects) are returned unchanged.
func normCondText(s string) string {
	head, ctx, hasCtx := strings.Cut(s, " @ ")
	nh, ok := normOneCond(head)
	if !ok {
		return s
	}
	if !hasCtx {
		return nh
	}
	parts := strings.Split(ctx, " & ")
	for i, p := range parts {
		if np, ok := normOneCond(p); ok {
			parts[i] = np
		}
	}
	return nh + " @ " + strings.Join(parts, " & ")
}

func normOneCond(s string) (string, bool) {
	i := strings.Index(s, "(")
	if i < 0 || !strings.HasSuffix(s, ")") {
		return s, false
	}
	op := s[:i]
	switch op {
	case "eq", "ne", "lt", "le":
	case "T", "F":
		return s, balanced(s[i+1 : len(s)-1])
	default:
		return s, false
	}
	body := s[i+1 : len(s)-1]
	depth, cut := 0, -1
	for j, ch := range body {
		switch ch {
		case '(', '[':
			depth++
		case ')', ']':
			depth--
			if depth < 0 {
				return s, false
			}
		case ',':
			if depth == 0 {
				if cut >= 0 {
					return s, false
				}
				cut = j
			}
		}
	}
	if depth != 0 || cut < 0 {
		return s, false
	}
	c := Cond{op, &Path{Kind: "const", Name: body[:cut]}, &Path{Kind: "const", Name: body[cut+1:]}}
	mk := func(p *Path) *Path {
		if (strings.HasPrefix(p.Name, "len(") || strings.HasPrefix(p.Name, "cap(")) && strings.HasSuffix(p.Name, ")") && balanced(p.Name[4:len(p.Name)-1]) {
			return &Path{Kind: "call", Name: p.Name[:3], Args: []*Path{{Kind: "const", Name: p.Name[4 : len(p.Name)-1]}}}
		}
		return p
	}
	c.L, c.R = mk(c.L), mk(c.R)
	return c.String(), true
}

func balanced(s string) bool {
	d := 0
	for _, ch := range s {
		switch ch {
		case '(', '[':
			d++
		case ')', ']':
			d--
			if d < 0 {
				return false
			}
		}
	}
	return d == 0
}

func (r *Run) expand(s string) string {
	if r.alias == nil || !strings.Contains(s, "$") {
		return s
	}
	// longest names first
	var names []string
	for n := range r.alias {
		names = append(names, n)
	}
	sort.Slice(names, func(i, j int) bool { return len(names[i]) > len(names[j]) })
	for i := 0; i < 4 && strings.Contains(s, "$"); i++ {
		for _, n := range names {
			s = strings.ReplaceAll(s, n, r.alias[n])
		}
	}
	return s
}

func (r *Run) Alias(name, val string) {
	if r.alias == nil {
		r.alias = map[string]string{}
	}
	r.alias[name] = r.expand(val)
}

func (r *Run) Guards(rows []row) {
	for _, rw := range rows {
		var alts []string
		for _, a := range rw.Alt {
			alts = append(alts, r.X(a))
		}
		var pre []string
		for _, p := range rw.Pre {
			pre = append(pre, r.X(p))
		}
		r.Guard(rw.F, r.X(rw.C), rw.Why, GuardOpt{Before: pre, Alt: alts})
	}
}

// Has: fn contains an effect with exactly this canonical form.
func (r *Run) Has(fnName, canon, why string) *Effect {
	fn := r.fn(fnName)
	if fn == nil {
		return nil
	}
	canon = r.X(canon)
	for _, e := range r.P.Effects(fn) {
		if e.Canon == canon {
			r.pass("K4-effect", fnName, canon, fmt.Sprintf("present at %s:%d", e.File, e.Line), why, e.File, e.Line)
			return e
		}
	}
	if r.P.NewHelperEffects(fn)[canon] {
		file, line := r.P.FnPos(fn)
		r.pass("K4-effect", fnName, canon, "performed through a helper that is new relative to the reviewed tree", why, file, line)
		return nil
	}
	file, line := r.P.FnPos(fn)
	set := map[string]bool{}
	for _, e := range r.P.Effects(fn) {
		set[e.Canon] = true
	}
	if implicitZeroStore(set, canon) {
		r.pass("K4-effect", fnName, canon, "implicit: the field of the fresh allocation is never written, so it keeps its zero value", why, file, line)
		return nil
	}
	// near miss: same callee
	var near []string
	head := canon
	if i := strings.Index(canon, "("); i > 0 {
		head = canon[:i]
	}
	if strings.HasPrefix(canon, "store ") {
		if i := strings.Index(canon, " = "); i > 0 {
			head = canon[:i]
		}
	}
	for _, e := range r.P.Effects(fn) {
		if strings.HasPrefix(e.Canon, head) {
			near = append(near, e.Canon)
		}
	}
	d := fmt.Sprintf("%s no longer performs `%s`", fnName, canon)
	if len(near) > 0 {
		d += "; it now has: " + strings.Join(near, " ; ")
	}
	r.viol("K4-effect", fnName, canon, d, why, file, line)
	return nil
}

// Always: every success exit of fn passes through the effect with this canonical form.
func (r *Run) Always(fnName, canon, why string) {
	canon = r.X(canon)
	if r.Has(fnName, canon, why) == nil {
		return
	}
	r.MustPass(fnName, "="+canon, why)
}

// storeIsSpilledReturn: the store writes a named result variable and the block ends in a Return
// that loads it (defer-spilled return).
func storeIsSpilledReturn(st *ssa.Store) bool {
	a, ok := st.Addr.(*ssa.Alloc)
	if !ok {
		return false
	}
	ret, ok := lastInstr(st.Block()).(*ssa.Return)
	if !ok {
		return false
	}
	for i := range ret.Results {
		if u, ok := ret.Results[i].(*ssa.UnOp); ok && u.X == a {
			return retOperand(ret, i) == st.Val
		}
	}
	return false
}

// errValues: the SSA values holding the error result of a call.
func errValues(ci ssa.CallInstruction) []ssa.Value {
	v := ci.Value()
	if v == nil {
		return nil
	}
	sig := ci.Common().Signature()
	ei := errResultIndex(sig)
	if ei < 0 {
		return nil
	}
	if sig.Results().Len() == 1 {
		return []ssa.Value{v}
	}
	var out []ssa.Value
	for _, ref := range *v.Referrers() {
		if ex, ok := ref.(*ssa.Extract); ok && ex.Index == ei {
			out = append(out, ex)
		}
	}
	return out
}

func isDealWithErr(in ssa.Instruction) bool {
	c, ok := in.(*ssa.Call)
	if !ok {
		return false
	}
	f := c.Call.StaticCallee()
	return f != nil && f.Name() == "DealWithErr" && f.Pkg != nil && f.Pkg.Pkg.Name() == "common"
}

// errToDealWithErr: the error of the call is handed to common.DealWithErr (panic on non-nil).
func errToDealWithErr(ci ssa.CallInstruction) bool {
	for _, ev := range errValues(ci) {
		for _, ref := range *ev.Referrers() {
			if isDealWithErr(ref) {
				return true
			}
			switch x := ref.(type) {
			case *ssa.ChangeInterface:
				for _, r2 := range *x.Referrers() {
					if isDealWithErr(r2) {
						return true
					}
				}
			case *ssa.MakeInterface:
				for _, r2 := range *x.Referrers() {
					if isDealWithErr(r2) {
						return true
					}
				}
			}
		}
	}
	return false
}

// normFull sorts and de-duplicates the context conjuncts of a canonical guard text.
func normFull(s string) string {
	i := strings.Index(s, " @ ")
	if i < 0 {
		return s
	}
	parts := strings.Split(s[i+3:], " & ")
	sort.Strings(parts)
	var out []string
	for j, p := range parts {
		if j == 0 || p != parts[j-1] {
			out = append(out, p)
		}
	}
	return s[:i] + " @ " + strings.Join(out, " & ")
}

// tailPropagates finds a return of fn whose error result is a value v (not provably nil or non-nil)
// such that `ne(nil,v)` in the block's context is one of the wanted guard texts.
func (r *Run) tailPropagates(fn *ssa.Function, want []string) (*ssa.Return, string) {
	ei := errResultIndex(fn.Signature)
	if ei < 0 {
		// a predicate that returns the comparison itself: `return a >= b` refuses exactly when
		// `if a < b { return false }; return true` does
		res := fn.Signature.Results()
		if res.Len() == 1 && isBool(res.At(0).Type()) {
			env := r.P.Env(fn)
			for _, b := range fn.Blocks {
				ret, ok := lastInstr(b).(*ssa.Return)
				if !ok || b == fn.Recover || len(ret.Results) != 1 {
					continue
				}
				v := retOperand(ret, 0)
				if _, isC := v.(*ssa.Const); isC {
					continue
				}
				c := env.condOf(v)
				if c.Op == "T" || c.Op == "F" {
					continue
				}
				full := normFull(fullCond(c.Negate(), r.blockCtx(fn, b)))
				for _, w := range want {
					if full == w {
						return ret, full
					}
				}
			}
		}
		return nil, ""
	}
	env := r.P.Env(fn)
	for _, b := range fn.Blocks {
		if b == fn.Recover {
			continue
		}
		ret, ok := lastInstr(b).(*ssa.Return)
		if !ok || ei >= len(ret.Results) {
			continue
		}
		v := retOperand(ret, ei)
		if c, isC := v.(*ssa.Const); isC && c.Value == nil {
			continue
		}
		if r.P.nonNilErr(v, b, 0) {
			continue
		}
		c := Cond{"ne", &Path{Kind: "const", Name: "nil"}, env.of(v)}.canon()
		full := normFull(fullCond(c, r.blockCtx(fn, b)))
		for _, w := range want {
			if full == w {
				return ret, full
			}
		}
	}
	return nil, ""
}

// tailBoolRejects: the rejections a predicate performs by returning a comparison (`return a >= b`
// refuses when a < b), in guard normal form.
func (r *Run) tailBoolRejects(fn *ssa.Function) []string {
	res := fn.Signature.Results()
	if res.Len() != 1 || !isBool(res.At(0).Type()) {
		return nil
	}
	var out []string
	env := r.P.Env(fn)
	for _, b := range fn.Blocks {
		ret, ok := lastInstr(b).(*ssa.Return)
		if !ok || b == fn.Recover || len(ret.Results) != 1 {
			continue
		}
		v := retOperand(ret, 0)
		if _, isC := v.(*ssa.Const); isC {
			continue
		}
		c := env.condOf(v)
		if c.Op == "T" || c.Op == "F" {
			continue
		}
		out = append(out, normFull(fullCond(c.Negate(), r.blockCtx(fn, b))))
	}
	return out
}

// conjunctKey: the sorted set of conjuncts of a guard text "c @ a & b".
func conjunctKey(full string) string {
	head, ctx, has := strings.Cut(full, " @ ")
	parts := []string{head}
	if has {
		parts = append(parts, strings.Split(ctx, " & ")...)
	}
	sort.Strings(parts)
	var u []string
	for i, p := range parts {
		if i == 0 || p != parts[i-1] {
			u = append(u, p)
		}
	}
	return strings.Join(u, " && ")
}

var errPlumbingRe = regexp.MustCompile(`^(eq|ne)\((nil,.*#\d+|.*#\d+,nil|(\w+\.)?Err\w+,.*|.*,(\w+\.)?Err\w+)\)$`)

// dataConjunctKey: the rejecting condition plus the *data* conjuncts of its context; context
// conjuncts that only say "that earlier call did (not) fail" (nil or sentinel compared with an
// extracted call result) are left out — they differ between nested and flattened error handling.
func dataConjunctKey(full string) string {
	head, ctx, has := strings.Cut(full, " @ ")
	parts := []string{head}
	if has {
		for _, c := range strings.Split(ctx, " & ") {
			if !errPlumbingRe.MatchString(c) {
				parts = append(parts, c)
			}
		}
	}
	sort.Strings(parts)
	return strings.Join(parts, " && ")
}

// newHelperCalls: fn calls a helper that is new relative to the reviewed tree, the helper performs
// a call matching m, and the guard's accepting edge dominates every such helper call.
func (r *Run) newHelperCalls(fn *ssa.Function, m string, g *Guard) bool {
	if knownFuncs == nil {
		return false
	}
	found := false
	for _, cs := range r.P.Calls(fn, false) {
		h := cs.Instr.Common().StaticCallee()
		if h == nil || h.Blocks == nil {
			continue
		}
		if n := r.P.FuncName(h); n == "" || knownFuncs[n] {
			continue
		}
		if len(r.P.FindCalls(h, m, false)) == 0 {
			continue
		}
		if !g.DominatesInContext(cs.Instr.Block()) {
			return false
		}
		found = true
	}
	return found
}
