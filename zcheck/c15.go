package main

import (
	"fmt"
	"go/constant"
	"go/types"
	"sort"
	"strings"

	"golang.org/x/tools/go/ssa"
)

// C15 — untrusted peers cannot crash, stall or bloat the node.

func init() {
	register(&propDef{
		ID: "C15",
		Explain: "Structural necessary conditions: (1) K7 nil-discipline in protocol/, downloader, fetcher and chain/momentum: the pointer result of every lookup that can return (nil,nil) (fixpoint over parseMomentum/parseAccountBlock/… and the store interfaces) is nil-tested on every path before it is dereferenced (frontier lookups excepted by symbol: the genesis is inserted before the protocol starts); " +
			"(2) K11 reply bounds: the hash count reaching GetBlockHashesFromHash in both hash-request cases is, on every path, the value last clamped against MaxHashFetch with no later reassignment; the GetBlocksMsg loop stops at MaxBlockFetch; (3) K2 the 10 MiB size guard dominates every Decode/rlp.NewStream of handleMsg; (4) K5 dispatch: every message code constant has a case, unknown codes return an error, every request-decode error returns (drops the peer); " +
			"(5) K2 authenticate before use: in rlpxFrameRW.ReadMsg the header-MAC guard dominates header decryption and the frame-size read, the frame-MAC guard dominates frame decryption and rlp.Decode; in discover.decodePacket the size (≥ head+1), hash and signature-recovery guards dominate the typed decode and the type byte read; (6) only the offending peer is dropped: handle returns handleMsg's error and deregisters the peer by defer.",
		NotDec: "crash-freedom of the library decoders (rlp, protobuf) on arbitrary bytes; liveness (blocking sends on channels, downloader/fetcher queues); total memory under many peers (an authenticated rlpx frame may announce up to 16 MiB before handleMsg's 10 MiB guard).",
		Run:    runC15,
		Controls: []control{
			{Name: "nil-check-removed", File: "protocol/chain_bridge.go", Old: "\t\tif target == nil {\n\t\t\treturn 0, errors.Errorf(\"can't link momentums to insert. First momentum Prev is %v but we have no momentum at that height\", head.Previous())\n\t\t}\n", New: "", ExpectKeySub: "K7-nil-discipline"},
			{Name: "reclamp-removed", File: "protocol/handler.go", Old: "\t\t// The amount may have been recomputed from the frontier above; apply the reply limit again\n\t\tif request.Amount > uint64(downloader.MaxHashFetch) {\n\t\t\trequest.Amount = uint64(downloader.MaxHashFetch)\n\t\t}\n", New: "", ExpectKeySub: "K11-clamped"},
			{Name: "clamp-signed-compare", File: "protocol/handler.go", Old: "\t\tif request.Amount > uint64(downloader.MaxHashFetch) {\n\t\t\trequest.Amount = uint64(downloader.MaxHashFetch)\n\t\t}\n\t\t// Retrieve the hashes from the block chain and return them", New: "\t\tif int(request.Amount) > downloader.MaxHashFetch {\n\t\t\trequest.Amount = uint64(downloader.MaxHashFetch)\n\t\t}\n\t\t// Retrieve the hashes from the block chain and return them", ExpectKeySub: "K11-clamped"},
			{Name: "size-guard-after-decode", File: "protocol/handler.go", Old: "\tif msg.Size > ProtocolMaxMsgSize {\n\t\treturn errResp(ErrMsgTooLarge, \"%v > %v\", msg.Size, ProtocolMaxMsgSize)\n\t}\n\tdefer msg.Discard()\n", New: "\tdefer msg.Discard()\n\tif msg.Code != TxMsg && msg.Size > ProtocolMaxMsgSize {\n\t\treturn errResp(ErrMsgTooLarge, \"%v > %v\", msg.Size, ProtocolMaxMsgSize)\n\t}\n", ExpectKeySub: "Size"},
			{Name: "blocks-limit-removed", File: "protocol/handler.go", Old: "\t\t\t\tif len(blocks) >= downloader.MaxBlockFetch {\n\t\t\t\t\tbreak\n\t\t\t\t}\n", New: "", ExpectKeySub: "MaxBlockFetch"},
			{Name: "discover-min-size", File: "p2p/discover/udp.go", Old: "if len(buf) < headSize+1 {", New: "if len(buf) < headSize {", ExpectKeySub: "decodePacket"},
			{Name: "mac-after-decrypt", File: "p2p/rlpx.go", Old: "\tif !hmac.Equal(shouldMAC, headbuf[16:]) {\n\t\treturn msg, errors.New(\"bad header MAC\")\n\t}\n\trw.dec.XORKeyStream(headbuf[:16], headbuf[:16]) // first half is now decrypted\n", New: "\trw.dec.XORKeyStream(headbuf[:16], headbuf[:16]) // first half is now decrypted\n\tif !hmac.Equal(shouldMAC, headbuf[16:]) {\n\t\treturn msg, errors.New(\"bad header MAC\")\n\t}\n", ExpectKeySub: "rlpxFrameRW"},
			{Name: "peer-not-removed", File: "protocol/handler.go", Old: "\tdefer pm.removePeer(p.id)\n", New: "", ExpectKeySub: "removePeer"},
		},
	})
}

// clampedArg: K11. Argument i of every call matching `match` in fn is a load of a memory location
// whose last write on every path is the clamp `if loc > limit { loc = limit }`.
func clampedArg(r *Run, fnName, match string, i int, limit, why string) {
	fn := r.fn(fnName)
	if fn == nil {
		return
	}
	env := r.P.Env(fn)
	file, line := r.P.FnPos(fn)
	sites := r.P.FindCalls(fn, match, false)
	if len(sites) == 0 {
		r.viol("K11-clamped", fnName, "arg of "+match, fnName+" no longer calls "+match, why, file, line)
		return
	}
	for n, cs := range sites {
		construct := fmt.Sprintf("count passed to %s (site %d) clamped to %s", match, n+1, limit)
		args := cs.Instr.Common().Args
		if cs.Instr.Common().IsInvoke() {
			// invoke: Args excludes the receiver
		} else if cs.Instr.Common().Signature().Recv() != nil {
			args = args[1:]
		}
		if i >= len(args) {
			r.viol("K11-clamped", fnName, construct, "argument missing", why, cs.File, cs.Line)
			continue
		}
		ld, ok := args[i].(*ssa.UnOp)
		if !ok || ld.Op.String() != "*" {
			r.viol("K11-clamped", fnName, construct, fmt.Sprintf("the count at %s:%d is `%s`, not a load of a clamped request field", cs.File, cs.Line, env.of(args[i]).String()), why, cs.File, cs.Line)
			continue
		}
		loc := env.of(ld.X).String()
		want := "lt(" + limit + "," + loc + ")"
		var clamp *Guard
		var clampStore *ssa.Store
		for _, g := range r.P.Info(fn).guards {
			if g.Cond.String() != want {
				continue
			}
			// the true edge stores the limit into loc
			var st *ssa.Store
			for _, in := range g.Block.Succs[0].Instrs {
				if s, ok := in.(*ssa.Store); ok && env.of(s.Addr).String() == loc && env.of(s.Val).String() == limit {
					st = s
				}
			}
			if st == nil {
				continue
			}
			if g.Block.Dominates(cs.Instr.Block()) {
				// prefer the clamp closest to the call
				if clamp == nil || clamp.Block.Dominates(g.Block) {
					clamp, clampStore = g, st
				}
			}
		}
		if clamp == nil {
			// the clamp as a function: `loc = cap(loc)` where cap(x) returns the limit when x exceeds it and x otherwise
			if st := clampByHelper(r, fn, cs, loc, limit); st != nil {
				f2, l2 := r.P.Pos(st.Pos())
				r.pass("K11-clamped", fnName, construct, fmt.Sprintf("clamped through a capping helper at %s:%d, the last write before the call", f2, l2), why, cs.File, cs.Line)
				continue
			}
			r.viol("K11-clamped", fnName, construct, fmt.Sprintf("no clamp `if %s > %s { %s = %s }` dominates the call at %s:%d (unsigned comparison on the request field itself)", loc, limit, loc, limit, cs.File, cs.Line), why, cs.File, cs.Line)
			continue
		}
		// no other write to loc between the clamp and the call: stores, or calls receiving its address
		bad := ""
		for _, b := range fn.Blocks {
			if !(clamp.Block.Dominates(b) && b != clamp.Block) {
				continue
			}
			// b must be able to reach the call
			if !blockReaches(b, cs.Instr.Block()) {
				continue
			}
			for _, in := range b.Instrs {
				if b == cs.Instr.Block() && instrIndex(in) >= instrIndex(cs.Instr.(ssa.Instruction)) {
					break
				}
				if s, ok := in.(*ssa.Store); ok && s != clampStore && env.of(s.Addr).String() == loc {
					f2, l2 := r.P.Pos(s.Pos())
					bad = fmt.Sprintf("%s is reassigned at %s:%d after the clamp at %s:%d", loc, f2, l2, clamp.File, clamp.Line)
				}
			}
		}
		if bad != "" {
			r.viol("K11-clamped", fnName, construct, bad+": the reply can exceed the limit", why, cs.File, cs.Line)
		} else {
			r.pass("K11-clamped", fnName, construct, fmt.Sprintf("clamp at %s:%d is the last write before the call", clamp.File, clamp.Line), why, cs.File, cs.Line)
		}
	}
}

func blockReaches(from, to *ssa.BasicBlock) bool {
	seen := map[*ssa.BasicBlock]bool{from: true}
	work := []*ssa.BasicBlock{from}
	for len(work) > 0 {
		b := work[len(work)-1]
		work = work[:len(work)-1]
		if b == to {
			return true
		}
		for _, s := range b.Succs {
			if !seen[s] {
				seen[s] = true
				work = append(work, s)
			}
		}
	}
	return false
}

func runC15(r *Run) {
	hm := "protocol.(*ProtocolManager).handleMsg"
	r.Alias("$msg", "a0.rw.ReadMsg()#0")
	// (1) nil discipline
	frontier := "the frontier momentum always exists once chain.Init has inserted the genesis, which happens before the protocol manager starts"
	ex := map[string]string{}
	for _, s := range r.nilInventory([]string{"protocol", "chain/momentum."}) {
		if !s.Checked && (strings.HasSuffix(s.Callee, ".GetFrontierMomentum")) {
			ex[s.Fn+"|"+s.Callee] = frontier
		}
	}
	r.NilDiscipline([]string{"protocol", "chain/momentum."}, ex, "peer-supplied hashes and heights select the lookups; handler, downloader and fetcher goroutines have no recover, so a nil dereference terminates the node")

	// (2) reply bounds
	lim := "conv:uint64(downloader.MaxHashFetch)"
	clampedArg(r, hm, ".GetBlockHashesFromHash", 1, lim, "at most 512 hashes per reply, for every requested amount")
	r.Branch(hm, "le(downloader.MaxBlockFetch,len(append(iter(nil),list(recv.chainman.GetBlock(new(types.Hash))))))", "the block reply stops growing at MaxBlockFetch (128)")
	r.OnCondMustNotCall(hm, "le(downloader.MaxBlockFetch,len(append(iter(nil),list(recv.chainman.GetBlock(new(types.Hash))))))", []string{".GetBlock"}, "reaching the limit leaves the gathering loop")
	// (3) size guard first
	r.Guards([]row{
		{F: hm, C: "lt(10485760,$msg.Size)", Pre: []string{".Decode", "github.com/ethereum/go-ethereum/rlp.NewStream"}, Why: "no message above 10 MiB is decoded"},
		{F: hm, C: "ne(a0.rw.ReadMsg()#1,nil)", Why: "a read error drops the peer"},
		{F: hm, C: "eq(0,$msg.Code)", Why: "status after handshake is a protocol violation"},
	})
	r.Has(hm, "defer $msg.Discard()", "the payload is always consumed")
	// (4) dispatch
	pk := r.P.Pkg("protocol")
	if pk != nil {
		var names []string
		vals := map[string]string{}
		sc := pk.Types.Scope()
		for _, n := range sc.Names() {
			c, ok := sc.Lookup(n).(*types.Const)
			if !ok || !strings.HasSuffix(n, "Msg") || c.Val().Kind() != constant.Int {
				continue
			}
			names = append(names, n)
			vals[n] = c.Val().ExactString()
		}
		sort.Strings(names)
		fn := r.fn(hm)
		if fn != nil && len(names) > 0 {
			file, line := r.P.FnPos(fn)
			var conds []string
			for _, g := range r.P.Info(fn).guards {
				conds = append(conds, g.Cond.String(), g.Cond.Negate().String())
			}
			for _, n := range names {
				want := "eq(" + vals[n] + "," + r.X("$msg.Code") + ")"
				found := false
				for _, c := range conds {
					if c == want {
						found = true
					}
				}
				if found {
					r.pass("K5-dispatch", hm, "case "+n, "", "every message code of the protocol is dispatched", file, line)
				} else {
					r.viol("K5-dispatch", hm, "case "+n, "message code "+n+" ("+vals[n]+") has no case in handleMsg", "every message code of the protocol is dispatched", file, line)
				}
			}
		} else if len(names) == 0 {
			r.viol("vacuous-rule", "", "message codes", "no *Msg constant found in package protocol", "", "", 0)
		}
	}
	r.GuardLike(hm, "ne(2,$msg.Code)", "an unknown message code is an error (the peer is dropped)")
	r.GuardLike(hm, "ne($msg.Decode(new(protocol.getBlockHashesData)),nil)", "a request that does not decode drops the peer")
	r.GuardLike(hm, "ne($msg.Decode(new(protocol.getBlockHashesFromNumberData)),nil)", "a request that does not decode drops the peer")
	r.GuardLike(hm, "ne($msg.Decode(new(*nom.DetailedMomentum)),nil)", "a block announcement that does not decode drops the peer")
	r.GuardLike(hm, "ne($msg.Decode(new([]*nom.AccountBlock)),nil)", "a transaction message that does not decode drops the peer")
	r.GuardLike(hm, "eq(new([]*nom.AccountBlock)[iter],nil)", "a nil transaction drops the peer")

	// (5) authenticate before use
	rd := "p2p.(*rlpxFrameRW).ReadMsg"
	r.Guards([]row{
		{F: rd, C: "F(hmac.Equal(p2p.updateMAC(recv.ingressMAC,recv.macCipher,new([32]byte)[:32][:16]),new([32]byte)[:32][16:]))", Pre: []string{"=recv.dec.XORKeyStream(new([32]byte)[:32][:16],new([32]byte)[:32][:16])", "p2p.readInt24", "=io.ReadFull(recv.conn,make([]byte,phi((p2p.readInt24(new([32]byte)[:32])+(16-(p2p.readInt24(new([32]byte)[:32])%16)))|p2p.readInt24(new([32]byte)[:32]))))"}, Why: "the header MAC is verified before the header is decrypted, the frame size read or the frame buffer allocated"},
		{F: rd, C: "F(hmac.Equal(p2p.updateMAC(recv.ingressMAC,recv.macCipher,recv.ingressMAC.Sum(nil)),new([32]byte)[:32][:16]))", Pre: []string{"=recv.dec.XORKeyStream(make([]byte,phi((p2p.readInt24(new([32]byte)[:32])+(16-(p2p.readInt24(new([32]byte)[:32])%16)))|p2p.readInt24(new([32]byte)[:32]))),make([]byte,phi((p2p.readInt24(new([32]byte)[:32])+(16-(p2p.readInt24(new([32]byte)[:32])%16)))|p2p.readInt24(new([32]byte)[:32]))))", "github.com/ethereum/go-ethereum/rlp.Decode"}, Why: "the frame MAC is verified before the frame is decrypted and decoded"},
	})
	dp := "p2p/discover.decodePacket"
	r.Guards([]row{
		{F: dp, C: "lt(len(a0),98)", Pre: []string{"p2p/discover.recoverNodeID", "github.com/ethereum/go-ethereum/rlp.DecodeBytes"}, Why: "a datagram must hold the header and at least the type byte (the type byte is read right after)"},
		{F: dp, C: "ne(a0[:32],crypto.Keccak256(list(a0[32:])))", Pre: []string{"p2p/discover.recoverNodeID", "github.com/ethereum/go-ethereum/rlp.DecodeBytes"}, Why: "integrity hash first"},
		{F: dp, C: "ne(discover.recoverNodeID(crypto.Keccak256(list(a0[97:])),a0[32:97])#1,nil)", Pre: []string{"github.com/ethereum/go-ethereum/rlp.DecodeBytes"}, Why: "signature recovery before the typed decode"},
		{F: dp, C: "ne(4,a0[97:][0]) @ ne(1,a0[97:][0]) & ne(2,a0[97:][0]) & ne(3,a0[97:][0])", Why: "unknown packet types are refused"},
	})

	// (6) only the offending peer is dropped
	h := "protocol.(*ProtocolManager).handle"
	r.Has(h, "defer recv.removePeer(a0.id)", "the peer whose message failed is deregistered when handle returns")
	r.Returns(h, []string{"a0.Handshake(recv.chainman.Status()#0,recv.chainman.Status()#1,recv.chainman.Status()#2)", "recv.peers.Register(a0)", "recv.downloader.RegisterPeer(a0.id,a0.version,a0.Head(),closure:protocol.RequestHashes$bound,closure:protocol.RequestHashesFromNumber$bound,closure:protocol.RequestBlocks$bound)", "recv.handleMsg(a0)"}, "handle ends (dropping this peer only) exactly when handshake, registration or a message fails")
}

// clampByHelper: the last store to loc before the call (dominating it, no later store on a path to
// the call) assigns h(load loc) where h(x) is a capping function: it branches on limit < x and
// returns the limit on that side and x on the other.
func clampByHelper(r *Run, fn *ssa.Function, cs *CallSite, loc, limit string) *ssa.Store {
	env := r.P.Env(fn)
	var last *ssa.Store
	var others []*ssa.Store
	for _, b := range fn.Blocks {
		for _, in := range b.Instrs {
			st, ok := in.(*ssa.Store)
			if !ok || env.of(st.Addr).String() != loc {
				continue
			}
			if !instrDominates(st, cs.Instr.(ssa.Instruction)) {
				others = append(others, st)
				continue
			}
			if last == nil || instrDominates(last, st) {
				last = st
			}
		}
	}
	if last == nil {
		return nil
	}
	// no other write between the capping store and the call
	for _, o := range others {
		if o.Block() != last.Block() && blockReaches(last.Block(), o.Block()) && blockReaches(o.Block(), cs.Instr.Block()) {
			return nil
		}
	}
	call, ok := last.Val.(*ssa.Call)
	if !ok || len(call.Call.Args) != 1 {
		return nil
	}
	h := call.Call.StaticCallee()
	if h == nil || h.Blocks == nil || r.P.FuncName(h) == "" {
		return nil
	}
	ld, ok := call.Call.Args[0].(*ssa.UnOp)
	if !ok || env.of(ld.X).String() != loc {
		return nil
	}
	henv := r.P.Env(h)
	rets := map[string]bool{}
	for _, b := range h.Blocks {
		if ret, ok := lastInstr(b).(*ssa.Return); ok && len(ret.Results) == 1 {
			rets[henv.of(ret.Results[0]).String()] = true
		}
	}
	if len(rets) != 2 || !rets["a0"] || !rets[limit] {
		return nil
	}
	for _, g := range r.P.Info(h).guards {
		if g.Cond.String() == "lt("+limit+",a0)" || g.Cond.Negate().String() == "lt("+limit+",a0)" {
			// the limit is returned on the side where the bound is exceeded
			side := g.Block.Succs[0]
			if g.Cond.String() != "lt("+limit+",a0)" {
				side = g.Block.Succs[1]
			}
			if ret, ok := lastInstr(side).(*ssa.Return); ok && henv.of(ret.Results[0]).String() == limit {
				return last
			}
		}
	}
	return nil
}
