package main

import (
	"fmt"
	"go/types"
	"sort"
	"strings"

	"golang.org/x/tools/go/ssa"
)

// mayReturnNilNil: module functions with results (…pointer…, error) that can return a nil pointer
// together with a nil error (directly, or by returning the results of such a function).
func (p *Prog) mayReturnNilNil() map[*ssa.Function]bool {
	out := map[*ssa.Function]bool{}
	var cands []*ssa.Function
	for _, n := range p.FuncNames() {
		f := p.Fn(n)
		if f.Blocks == nil {
			continue
		}
		res := f.Signature.Results()
		if res.Len() != 2 || !isErrorType(res.At(1).Type()) {
			continue
		}
		if _, ok := res.At(0).Type().Underlying().(*types.Pointer); !ok {
			continue
		}
		cands = append(cands, f)
	}
	isNilConst := func(v ssa.Value) bool {
		c, ok := v.(*ssa.Const)
		return ok && c.Value == nil
	}
	for iter := 0; iter < 10; iter++ {
		changed := false
		for _, f := range cands {
			if out[f] {
				continue
			}
			for _, b := range f.Blocks {
				ret, ok := lastInstr(b).(*ssa.Return)
				if !ok || len(ret.Results) != 2 {
					continue
				}
				r0, r1 := retOperand(ret, 0), retOperand(ret, 1)
				hit := false
				if isNilConst(r0) && isNilConst(r1) {
					hit = true
				}
				// return g(...) / return x, err with both extracted from one call to a nil-nil function
				if e0, ok := r0.(*ssa.Extract); ok {
					if c, ok := e0.Tuple.(*ssa.Call); ok {
						if cf := c.Call.StaticCallee(); cf != nil && out[cf] {
							if e1, ok := r1.(*ssa.Extract); ok && e1.Tuple == e0.Tuple {
								hit = true
							}
							if isNilConst(r1) && !p.onNonNilEdge(r0, b) {
								hit = true
							}
						}
						if c.Call.IsInvoke() {
							// interface method: any module implementation that is nil-nil
							for g := range out {
								if g.Name() == c.Call.Method.Name() && g.Signature.Recv() != nil {
									if iface, ok := c.Call.Value.Type().Underlying().(*types.Interface); ok && types.Implements(g.Signature.Recv().Type(), iface) {
										if e1, ok := r1.(*ssa.Extract); ok && e1.Tuple == e0.Tuple {
											hit = true
										}
									}
								}
							}
						}
					}
				}
				// a nil pointer phi with nil error (e.g. parse helpers returning nil on ErrNotFound)
				if ph, ok := r0.(*ssa.Phi); ok && isNilConst(r1) {
					for _, e := range ph.Edges {
						if isNilConst(e) {
							hit = true
						}
					}
				}
				if hit {
					out[f] = true
					changed = true
				}
			}
		}
		if !changed {
			break
		}
	}
	return out
}

type nilSite struct {
	Fn, Callee, Use string
	File           string
	Line           int
	Checked        bool
}

// nilInventory: in functions whose canonical name has one of the prefixes, every call to a
// may-return-(nil,nil) lookup whose pointer result is dereferenced; Checked tells whether every
// dereference is dominated by the non-nil edge of a nil test of that value.
func (r *Run) nilInventory(prefixes []string) []nilSite {
	nn := r.P.mayReturnNilNil()
	isNN := func(c *ssa.CallCommon) (string, bool) {
		if f := c.StaticCallee(); f != nil {
			return r.P.FuncName(f), nn[f]
		}
		if c.IsInvoke() {
			iface, _ := c.Value.Type().Underlying().(*types.Interface)
			for g := range nn {
				if g.Name() == c.Method.Name() && g.Signature.Recv() != nil && iface != nil && types.Implements(g.Signature.Recv().Type(), iface) {
					return "iface:" + shortType(c.Value.Type()) + "." + c.Method.Name(), true
				}
			}
		}
		return "", false
	}
	var out []nilSite
	for _, name := range r.P.FuncNames() {
		hit := false
		for _, pre := range prefixes {
			if strings.HasPrefix(name, pre) {
				hit = true
			}
		}
		if !hit {
			continue
		}
		fn := r.P.Fn(name)
		if fn.Blocks == nil {
			continue
		}
		for _, b := range fn.Blocks {
			for _, in := range b.Instrs {
				call, ok := in.(*ssa.Call)
				if !ok {
					continue
				}
				callee, is := isNN(&call.Call)
				if !is {
					continue
				}
				// pointer value = Extract #0
				for _, ref := range *call.Referrers() {
					ex, ok := ref.(*ssa.Extract)
					if !ok || ex.Index != 0 {
						continue
					}
					var derefs []ssa.Instruction
					for _, u := range *ex.Referrers() {
						switch x := u.(type) {
						case *ssa.FieldAddr:
							if x.X == ssa.Value(ex) {
								derefs = append(derefs, u)
							}
						case *ssa.UnOp:
							if x.Op.String() == "*" && x.X == ssa.Value(ex) {
								derefs = append(derefs, u)
							}
						case *ssa.Call:
							if len(x.Call.Args) > 0 && x.Call.Args[0] == ssa.Value(ex) && !x.Call.IsInvoke() {
								if cf := x.Call.StaticCallee(); cf != nil && cf.Signature.Recv() != nil {
									derefs = append(derefs, u)
								}
							}
						}
					}
					if len(derefs) == 0 {
						continue
					}
					ns := nilSite{Fn: name, Callee: callee, Checked: true}
					ns.File, ns.Line = r.P.Pos(call.Pos())
					for _, d := range derefs {
						if !r.P.onNonNilEdge(ex, d.Block()) {
							ns.Checked = false
							f2, l2 := r.P.Pos(d.Pos())
							ns.Use = fmt.Sprintf("%s:%d", f2, l2)
						}
					}
					out = append(out, ns)
				}
			}
		}
	}
	sort.Slice(out, func(i, j int) bool {
		if out[i].Fn != out[j].Fn {
			return out[i].Fn < out[j].Fn
		}
		return out[i].Line < out[j].Line
	})
	return out
}

// NilDiscipline: K7. exceptions: "<function>|<callee>" → reason.
func (r *Run) NilDiscipline(prefixes []string, exceptions map[string]string, why string) {
	sites := r.nilInventory(prefixes)
	n := 0
	for _, s := range sites {
		n++
		construct := "result of " + s.Callee + " nil-checked before use"
		if s.Checked {
			r.pass("K7-nil-discipline", s.Fn, construct, "", why, s.File, s.Line)
			continue
		}
		if reason, ok := exceptions[s.Fn+"|"+s.Callee]; ok {
			r.pass("K7-nil-discipline", s.Fn, construct, "exception: "+reason, why, s.File, s.Line)
			continue
		}
		r.viol("K7-nil-discipline", s.Fn, construct, fmt.Sprintf("%s (called at %s:%d) can return (nil, nil) for data the node does not have; its result is dereferenced at %s without a nil test on that path — a peer- or client-chosen hash/height crashes the goroutine", s.Callee, s.File, s.Line, s.Use), why, s.File, s.Line)
	}
	if n == 0 {
		r.viol("vacuous-rule", "", "nil discipline", "no (nil,nil)-capable lookup with a dereferenced result found in "+strings.Join(prefixes, ","), why, "", 0)
	}
}
