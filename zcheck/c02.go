package main

import "golang.org/x/tools/go/ssa"

// C02 — replay determinism: same momentums in, byte-identical ledger out.

// acceptReads: every read of the node's *current* frontier on the acceptance path, triaged by symbol.
var acceptReads = map[string]string{
	"verifier.(*accountVerifier).getContext|frontier-read:iface:chain.Chain.GetFrontierMomentumStore": "reached only after the block is already refused (no account view for its previous): the read selects which error is reported, never acceptance",
	"consensus.(*chainTicker).IsFinished|frontier-read:iface:chain.Chain.GetFrontierMomentumStore":    "asked only for ticks that are finished as of the acknowledged momentum (the embedded update methods compare the epoch with the acknowledged momentum's timestamp first); the frontier is at or above the acknowledged momentum, so the answer is 'finished' on every node",
	"consensus.(*chainTicker).HasStarted|frontier-read:iface:chain.Chain.GetFrontierMomentumStore":    "same: ticks at or below the acknowledged momentum have started on every node that can evaluate the block",
	"consensus.(*chainTicker).GetEndBlock|frontier-read:iface:chain.Chain.GetFrontierMomentumStore":   "time-bounded lookup (last momentum before the tick's end) for a tick that ended at or below the acknowledged momentum: every node holding the acknowledged momentum has the same prefix",
	"consensus.(*chainTicker).GetContent|frontier-read:iface:chain.Chain.GetFrontierMomentumStore":    "range read between two end blocks of finished ticks, checked against the end block's hash",
	"consensus.getMomentumBeforeTime|frontier-read:iface:chain.Chain.GetFrontierMomentumStore":        "time-bounded lookup below the election proof time, which is below the momentum being verified",
}

func init() {
	register(&propDef{
		ID: "C02",
		Explain: "Every source of node-dependence that is visible in the shape of the code: (1) K9 determinism inventory over the consensus-critical region (ApplyBlock/ApplyMomentum/Generate*/verifier/consensus/genesis): clock, randomness, environment, goroutines, channels, floats and every map loop triaged with its order-sensitivity signature; " +
			"(2) K1 context-read discipline: inside the acceptance region (Supervisor.ApplyBlock, ApplyMomentum, momentumStore.AddAccountBlockTransaction) every call that reads the node's current frontier instead of the view of the acknowledged momentum is enumerated and triaged by symbol (D15 — the receiver-mismatch gate of accountBlockVerifier reads the node's frontier height — is a known finding); " +
			"(3) K2/K3/K4 the momentum commits to the state change: ApplyMomentum succeeds only through verifier.Momentum, applyMomentum and packMomentum(generate=false), which verifies the transaction whose Changes are those of the very context applyMomentum wrote to; changesHash rejects ne(ChangesHash, PatchHash(Changes)); the hash pre-image of the momentum reads ChangesHash; the ChangesHash field is overwritten only when generating; " +
			"(4) K4 blocks and momentums are executed against the acknowledged view: newBlockContext/newMomentumContext/verifier.getContext/FixedPillarReader build their views from MomentumAcknowledged / Previous(), and chain.GetMomentumStore returns the versioned view of exactly that identifier; " +
			"(5) K1+K4 canonical patch order: patches are built only inside common/db, from the ordered iterator of the in-memory layer, and the prefix/tombstone filters replay them in order; (6) the view-reconstruction rules of C07 (presence encoding, overlay isolation, no-override undo replay; D3 known), the cache invalidation rules of C06 and the apply-loop rules of C16 (each delivered block verified unless already pooled under the same identifier, force-added, momentum verified then inserted) are obligations here too.",
		NotDec: "byte equality of two nodes' stores on values (needs execution); warm-versus-cold cache equivalence beyond the invalidation structure; that the triaged frontier reads are in fact bounded by the acknowledged momentum for every history (argued per symbol, guarded by the embedded update methods' epoch checks which C11 pins).",
		Run:    runC02,
		Controls: []control{
			{Name: "frontier-read-in-vm", File: "vm/supervisor.go", Old: "\tmomentumStore := s.chain.GetMomentumStore(block.MomentumAcknowledged)\n", New: "\tmomentumStore := s.chain.GetFrontierMomentumStore()\n", ExpectKeySub: "newBlockContext"},
			{Name: "changes-hash-not-checked", File: "verifier/momentum.go", Old: "\tif err := mv.changesHash(mv.transaction); err != nil {\n\t\treturn err\n\t}\n", New: "", ExpectKeySub: "changesHash"},
			{Name: "apply-skips-verification", File: "vm/supervisor.go", Old: "transaction, err := s.packMomentum(context, momentum, nil, false)", New: "transaction, err := s.packMomentum(context, momentum, nil, true)", ExpectKeySub: "packMomentum"},
			{Name: "clock-in-verifier", File: "verifier/momentum.go", Old: "\tif computedHash != momentum.Hash {\n", New: "\tif computedHash != momentum.Hash && time.Now().Unix()%2 == 0 {\n", ExpectKeySub: "clock"},
			{Name: "fresh-context-for-pack", File: "vm/supervisor.go", Old: "transaction, err := s.packMomentum(context, momentum, nil, false)", New: "transaction, err := s.packMomentum(s.newMomentumContext(momentum), momentum, nil, false)", ExpectKeySub: "newMomentumContext"},
			{Name: "view-of-frontier", File: "chain/momentum_pool.go", Old: "\tmomentumDB := c.chainManager.Get(identifier)\n", New: "\tmomentumDB := c.chainManager.Frontier()\n\t_ = identifier\n", ExpectKeySub: "GetMomentumStore"},
			{Name: "pooled-previous-trusted", File: "protocol/chain_bridge.go", Old: "if patch := c.chain.GetPatch(block.Address, block.Identifier()); patch != nil {\n\t\t\t\t// already applied", New: "if patch := c.chain.GetPatch(block.Address, block.Previous()); patch != nil {\n\t\t\t\t// already applied", ExpectKeySub: "InsertChain"},
			{Name: "ticker-new-frontier-read", File: "consensus/points.go", Old: "func (compound *compoundPoints) GetPoint(tick uint64) (*storage.Point, error) {\n", New: "func (compound *compoundPoints) GetPoint(tick uint64) (*storage.Point, error) {\n\tif f, _ := compound.ChainTicker.(*chainTicker).GetFrontierMomentumStore().GetFrontierMomentum(); f != nil && f.Height == 1<<62 {\n\t\treturn nil, nil\n\t}\n", ExpectKeySub: "compoundPoints).GetPoint"},
		},
	})
}

func runC02(r *Run) {
	r.NoSharedBigIntInLoop([]string{"consensus", "vm/", "chain/", "common/types."}, "decoded or computed per-element numbers (weights, amounts) must be separate objects")
	// (1) determinism of everything that decides validity or state
	ccr := r.Region("CCR", regionEntries["CCR"], false)
	r.Determinism("CCR", ccr, ccrTriage, "two nodes given the same momentums must compute the same state: nothing on the consensus path may depend on the clock, on randomness, on scheduling or on map iteration order")
	r.RandSeeds(ccr, []string{"recv.findSeed(a1)", "recv.findSeed(a2)", "(recv.findSeed(a2)+1)"}, "randomness on the consensus path is seeded from chain data only (the proof momentum's height)")

	// (2) context-read discipline on the acceptance path
	acc := r.Region("ACCEPT", regionEntries["ACCEPT"], false)
	r.ContextReads("ACCEPT", acc, acceptReads, "a block is evaluated against the ledger as of its acknowledged momentum, not against whatever this node's chain happens to be when it sees the block")

	// (3) the momentum commits to the state change
	am := "vm.(*Supervisor).ApplyMomentum"
	r.Alias("$mctx", "recv.newMomentumContext(a0.Momentum)")
	r.Guards([]row{
		{F: am, C: "ne(nil,recv.verifier.Momentum(a0))", Pre: []string{"vm.(*MomentumVM).applyMomentum"}, Why: "the delivered momentum is verified before anything is executed"},
		{F: am, C: "ne(nil,vm.NewMomentumVM($mctx).applyMomentum(recv.chain,a0.Momentum))", Why: "a failing execution refuses the momentum"},
		{F: am, C: "ne(nil,recv.packMomentum($mctx,a0.Momentum,nil,false)#1)", Why: "a transaction that does not verify refuses the momentum"},
	})
	r.CallCount(am, "vm.(*Supervisor).newMomentumContext", 1, "the context whose changes are hashed is the one the momentum was executed in")
	r.Has(am, "recv.packMomentum($mctx,a0.Momentum,nil,false)", "packed from the executed context, with verification (generate=false), without a signer")
	r.Has(am, "vm.NewMomentumVM($mctx).applyMomentum(recv.chain,a0.Momentum)", "executed in that context")
	r.Returns(am, []string{"nil, recv.verifier.Momentum(a0)", "nil, vm.NewMomentumVM($mctx).applyMomentum(recv.chain,a0.Momentum)", "nil, recv.packMomentum($mctx,a0.Momentum,nil,false)#1", "recv.packMomentum($mctx,a0.Momentum,nil,false)#0, nil"}, "success returns exactly the verified transaction")
	pm := "vm.(*Supervisor).packMomentum"
	r.Guards([]row{
		{F: pm, C: "ne(nil,recv.verifier.MomentumTransaction(new(nom.MomentumTransaction))) @ F(a3)", Why: "when not generating, the transaction (momentum + recomputed changes) must verify"},
		{F: pm, C: "ne(a0.Changes()#1,nil)", Why: "a context that cannot report its changes refuses"},
	})
	r.Has(pm, "store new(nom.MomentumTransaction).Changes = a0.Changes()#0", "the transaction carries the changes of the context it was given")
	r.Has(pm, "store new(nom.MomentumTransaction).Momentum = a1", "and the momentum it was given")
	r.UnreachableWhen(pm, "store a1.ChangesHash =", []string{"eq(a2,nil)", "F(a3)"}, "a delivered momentum's ChangesHash is never overwritten: only a generated (signed or genesis) momentum gets it computed")
	r.UnreachableWhen(pm, "store a1.Hash =", []string{"eq(a2,nil)", "F(a3)"}, "a delivered momentum's Hash is never overwritten")
	r.Returns("verifier.(*momentumVerifier).MomentumTransaction", []string{"new(verifier.momentumTransactionVerifier).all()"}, "transaction verification is the full rule list")
	r.Has("verifier.(*momentumVerifier).MomentumTransaction", "store new(verifier.momentumTransactionVerifier).transaction = a0", "over the transaction given")
	all := "verifier.(*momentumTransactionVerifier).all"
	r.Guards([]row{
		{F: all, C: "ne(nil,recv.changesHash(recv.transaction))", Why: "the state change is compared with the momentum's commitment"},
		{F: all, C: "ne(nil,recv.hash(recv.transaction))", Why: "the momentum hash covers the commitment"},
		{F: "verifier.(*momentumTransactionVerifier).changesHash", C: "ne(a0.Momentum.ChangesHash,db.PatchHash(a0.Changes))", Why: "receiver recomputes the patch hash and compares"},
		{F: "verifier.(*momentumTransactionVerifier).hash", C: "ne(a0.Momentum.ComputeHash(),a0.Momentum.Hash)", Why: "hash recomputed"},
	})
	r.Returns("common/db.PatchHash", []string{"types.NewHash(a0.Dump())"}, "the commitment is the hash of the whole serialised patch")
	fieldsMustBeRead(r, "chain/nom.(*Momentum).ComputeHash", "ChangesHash", "the momentum hash (which is what is signed and linked) covers the state-change commitment")
	r.Has("common/db.(*ldbManager).Add", "db.RollbackPatch(recv.Get(a0.GetCommits()[0].Previous()),a0.StealChanges())", "what is written to the store is the transaction's (verified) patch")
	r.Returns("chain/nom.(*MomentumTransaction).StealChanges", []string{"recv.Changes"}, "the committed patch is the transaction's Changes")

	// (4) executed against the acknowledged view
	contextProvenanceRules(r)

	// (5) canonical patch order
	patchOrderRules(r)

	// (6) views, caches, apply loop
	tombstoneAgreement(r)
	viewIsolationRules(r)
	runC06(r)
	electionCodecRules(r) // warm cache versus stored record
	ic := c16Aliases(r)
	applyLoopRules(r, ic)
}

// fieldsMustBeRead: the function reads the given field of its receiver (hash pre-image membership).
func fieldsMustBeRead(r *Run, fnName, field, why string) {
	fn := r.fn(fnName)
	if fn == nil {
		return
	}
	file, line := r.P.FnPos(fn)
	if nt := r.namedType("chain/nom", "Momentum"); nt != nil && r.P.fieldsRead(fn, nt, 2, map[*ssa.Function]bool{})[field] {
		r.pass("K10-preimage", fnName, "reads "+field, "", why, file, line)
		return
	}
	r.viol("K10-preimage", fnName, "reads "+field, fnName+" no longer reads "+field+": the value is not committed to by the hash", why, file, line)
}

// contextProvenanceRules: blocks and momentums are verified and executed against the views they
// name (acknowledged momentum, the block's previous), never against a frontier getter (shared by
// C02, C01, C03, C04).
func contextProvenanceRules(r *Run) {
	r.Returns("vm.(*Supervisor).newBlockContext", []string{"vm_context.NewAccountContext(recv.chain.GetMomentumStore(a0.MomentumAcknowledged),recv.chain.GetAccountStore(a0.Address,a0.Previous()),recv.consensus.FixedPillarReader(a0.MomentumAcknowledged))"},
		"ledger view = acknowledged momentum; account view = the block's previous; pillar reader fixed at the acknowledged momentum — none from a frontier getter")
	r.Returns("vm.(*Supervisor).newMomentumContext", []string{"vm_context.NewMomentumVMContext(recv.chain.GetMomentumStore(a0.Previous()))"}, "a momentum is executed on the view of its previous")
	gc := "verifier.(*accountVerifier).getContext"
	r.Has(gc, "recv.chain.GetMomentumStore(a0.MomentumAcknowledged)", "the verifier reads the ledger as of the acknowledged momentum")
	r.Has(gc, "recv.chain.GetAccountStore(a0.Address,a0.Previous())", "and the account as of the block's previous")
	r.Returns(gc, []string{"nil, nil, verifier.ErrABMHeightMissing", "nil, nil, verifier.ErrABPrevHashMissing", "nil, nil, verifier.ErrABPrevHashMustBeZero", "nil, nil, verifier.ErrABMAMustNotBeZero", "nil, nil, verifier.ErrABMAMissing", "nil, nil, verifier.InternalError(recv.chain.GetFrontierMomentumStore().GetAccountStore(a0.Address).Frontier()#1)",
		"nil, nil, verifier.InternalError(recv.chain.GetFrontierMomentumStore().GetAccountStore(a0.Address).ByHash(a0.PreviousHash)#1)", "nil, nil, verifier.ErrABPrevHasCementedOnTop", "nil, nil, verifier.ErrABPrevHeightExists", "nil, nil, verifier.ErrABPreviousMissing",
		"recv.chain.GetAccountStore(a0.Address,a0.Previous()), recv.chain.GetMomentumStore(a0.MomentumAcknowledged), nil"}, "the frontier read of getContext can only choose among errors; the success return carries the two acknowledged views")
	r.Has("consensus.(*consensus).FixedPillarReader", "store new(consensus.API).momentumStore = recv.chain.GetMomentumStore(a0)", "the pillar reader of a block is fixed at the identifier given (the acknowledged momentum)")
	gms := "chain.(*momentumPool).GetMomentumStore"
	r.Returns(gms, []string{"nil", "momentum.NewStore(recv.genesis,recv.chainManager.Get(a0))"}, "the momentum view handed out is the versioned view of exactly the identifier asked for")
	r.Returns("chain.(*accountPool).GetAccountStore", []string{"recv.getStableAccountStore(a0)", "nil", "account.NewAccountStore(a0,recv.getAccountManager(a0).Get(a1))"}, "the account view handed out is the version asked for (stable, or the pool manager's version of that identifier)")
	r.Branch("chain.(*accountPool).GetAccountStore", "eq(a1,recv.getStableAccountStore(a0).Identifier())", "the stable view is returned only when it is the version asked for")

}

// patchOrderRules: change sets are built only inside common/db from the ordered iterator of the
// private layer, and the prefix/tombstone filters replay them record by record (shared by C02, C07).
func patchOrderRules(r *Run) {
	ci := "common/db.(*memDBWrapper).changesInternal"
	r.Has(ci, "db.NewPatch().Put(recv.NewIterator(a0).Key(),recv.NewIterator(a0).Value())", "a change set is emitted by walking the ordered iterator of the in-memory layer: key order, independent of write order")
	r.Returns(ci, []string{"nil, recv.NewIterator(a0).Error()", "db.NewPatch(), nil"}, "and nothing else is added to it")
	r.WhoMayCallExt("patch record writers", "(*github.com/syndtr/goleveldb/leveldb.Batch).Put", []string{"common/db.*"}, false, "state-change patches are built only inside common/db (ordered iterator + order-preserving replay filters); no other package assembles a patch record by record")
	r.WhoMayCallExt("patch record writers (delete)", "(*github.com/syndtr/goleveldb/leveldb.Batch).Delete", []string{"common/db.*"}, false, "same for delete records")
	r.Has("common/db.(*enableDeleteDB).Changes", "recv.db.changesInternal(new([0]byte)[:])#0.Replay(new(db.enableDeletePatch))", "tombstones are translated into delete records by replaying the ordered patch")
	r.Has("common/db.(*subDB).changesInternal", "recv.db.changesInternal(common.JoinBytes(list(recv.prefix,a0)))#0.Replay(new(db.removePatchKeyPrefix))", "prefix removal replays the ordered patch")
	r.Has("common/db.(*removePatchKeyPrefix).Put", "recv.Patch.Put(a0[recv.prefixLength:],a1)", "the prefix filter forwards each record unchanged but for the prefix")

}
