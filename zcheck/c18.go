package main

import (
	"fmt"
	"go/types"
	"sort"
	"strings"

	"golang.org/x/tools/go/ssa"
)

// C18 — RPC answers match the ledger, are bounded; the server survives bad input.

type rpcMethod struct {
	Name   string
	Fn     *ssa.Function
	Params []string // names of size-like parameters with their index (name@idx)
}

// rpcEntries: exported methods of the API service types (*Api) of rpc/api, rpc/api/embedded, rpc/api/subscribe.
func rpcEntries(r *Run) []rpcMethod {
	var out []rpcMethod
	for _, n := range r.P.FuncNames() {
		if !strings.HasPrefix(n, "rpc/api") || strings.Contains(n, "$") {
			continue
		}
		fn := r.P.Fn(n)
		if fn.Blocks == nil || fn.Signature.Recv() == nil {
			continue
		}
		rt := fn.Signature.Recv().Type()
		if pt, ok := rt.(*types.Pointer); ok {
			rt = pt.Elem()
		}
		nt, ok := rt.(*types.Named)
		if !ok || !(strings.HasSuffix(nt.Obj().Name(), "Api") || strings.HasSuffix(nt.Obj().Name(), "API")) || !fn.Object().Exported() {
			continue
		}
		m := rpcMethod{Name: n, Fn: fn}
		ps := fn.Signature.Params()
		for i := 0; i < ps.Len(); i++ {
			pn := ps.At(i).Name()
			bt, isBasic := ps.At(i).Type().Underlying().(*types.Basic)
			if !isBasic || bt.Info()&types.IsInteger == 0 {
				continue
			}
			l := strings.ToLower(pn)
			if l == "pagesize" || l == "count" || l == "atmost" || l == "size" || l == "limit" {
				m.Params = append(m.Params, fmt.Sprintf("%s@%d", pn, i))
			}
		}
		out = append(out, m)
	}
	sort.Slice(out, func(i, j int) bool { return out[i].Name < out[j].Name })
	return out
}

// sizeGuarded: fn (or a module function it passes the parameter to, depth-bounded) rejects when
// the parameter exceeds a constant limit.
func sizeGuarded(r *Run, fn *ssa.Function, idx int, depth int) (bool, string) {
	pname := fmt.Sprintf("a%d", idx)
	for _, g := range r.P.Info(fn).guards {
		if g.Reject == "" {
			continue
		}
		c := g.RejCond
		if c.Op == "lt" && c.R != nil && c.R.String() == pname && c.L.Kind == "const" {
			return true, fmt.Sprintf("%s:%d limit %s", g.File, g.Line, c.L.String())
		}
	}
	if depth <= 0 {
		return false, ""
	}
	for _, cs := range r.P.Calls(fn, false) {
		callee := cs.Instr.Common().StaticCallee()
		if callee == nil || !r.P.InModule(callee) || callee.Blocks == nil {
			continue
		}
		args := cs.Path.Args
		off := 0
		if callee.Signature.Recv() != nil {
			off = 1
		}
		for j := off; j < len(args); j++ {
			if args[j].String() == pname {
				// the callee's failure must propagate
				if !r.failurePropagates(fn, cs, callee) {
					continue
				}
				if ok, where := sizeGuarded(r, callee, j-off, depth-1); ok {
					return true, "via " + r.P.FuncName(callee) + " " + where
				}
			}
		}
	}
	return false, ""
}

func init() {
	register(&propDef{
		ID: "C18",
		Explain: "Structural necessary conditions: (1) K5 sibling rule, exhaustive over every exported method of the RPC service types (*Api in rpc/api, rpc/api/embedded, rpc/api/subscribe): each pageSize/count-like integer parameter is rejected above a constant limit before use, directly or in the module function it is delegated to (the seven methods that lacked it were repaired: D17); (2) K11 GetRange computes page bounds in 64 bits and clamps to the list length; every paged slice expression takes both bounds from GetRange(pageIndex,pageSize,len(list)); the two *ByPage ledger methods clamp the last page; " +
			"(3) K8 every registered method runs under callback.call's recovering defer; the JSON codec turns a null/ill-formed request into an error message (never a nil message) in both the single and the batch path; (4) K7 nil-discipline of ledger lookups in rpc/api (frontier lookups excepted); (5) codec field agreement of the RPC block wrappers is C13's obligation (shared).",
		NotDec: "that results equal the ledger; paging completeness over every index on values; robustness of encoding/json and the websocket/http stacks to arbitrary bytes.",
		Run:    runC18,
		Controls: []control{
			{Name: "decoder-panics", File: "common/types/hash.go", Old: "func (h *Hash) UnmarshalText(input []byte) error {\n", New: "func (h *Hash) UnmarshalText(input []byte) error {\n\tif len(input) == 1 {\n\t\tpanic(\"short hash\")\n\t}\n", ExpectKeySub: "K8-decoder-panic"},
			{Name: "page-guard-removed", File: "rpc/api/embedded/token.go", Old: "func (a *TokenAPI) GetAll(pageIndex, pageSize uint32) (*TokenList, error) {\n\tif pageSize > api.RpcMaxPageSize {\n\t\treturn nil, api.ErrPageSizeParamTooBig\n\t}\n", New: "func (a *TokenAPI) GetAll(pageIndex, pageSize uint32) (*TokenList, error) {\n", ExpectKeySub: "TokenAPI).GetAll"},
			{Name: "getrange-32bit", File: "rpc/api/utils.go", Old: "start := uint64(index) * uint64(count)", New: "start := uint64(index * count)", ExpectKeySub: "GetRange"},
			{Name: "recover-removed", File: "rpc/server/service.go", Old: "\t\tif err := recover(); err != nil {", New: "\t\tif err := error(nil); err != nil {", ExpectKeySub: "K8-recover"},
			{Name: "batch-null-not-fixed-up", File: "rpc/server/json.go", Old: "\t\tif msg == nil {\n\t\t\t// Message is JSON 'null'. Replace with zero value so it\n\t\t\t// will be treated like any other invalid message.\n\t\t\tmessages[i] = new(jsonrpcMessage)\n\t\t}\n", New: "\t\t_, _ = i, msg\n", ExpectKeySub: "json"},
			{Name: "last-page-clamp-changed", File: "rpc/api/ledger.go", Old: "\ttooMuch := 1 - startHeight\n\tif tooMuch > 0 {\n\t\tstartHeight = 1\n\t\tcount -= tooMuch\n\t}\n\tif count < 1 {\n\t\treturn &AccountBlockList{", New: "\ttooMuch := 0 - startHeight\n\tif tooMuch > 0 {\n\t\tstartHeight = 1\n\t\tcount -= tooMuch\n\t}\n\tif count < 1 {\n\t\treturn &AccountBlockList{", ExpectKeySub: "GetAccountBlocksByPage"},
		},
	})
}

func runC18(r *Run) {
	// parameter decoding runs on the call goroutine *before* callback.call installs its recover: a
	// decoder that can panic is a remote kill switch
	dreg := r.Region("DECODE", regionEntries["DECODE"], false)
	nd := 0
	for f := range dreg {
		name := r.P.FuncName(f)
		if name == "" || f.Blocks == nil {
			continue
		}
		nd++
		file, line := r.P.FnPos(f)
		bad := ""
		for _, b := range f.Blocks {
			if pn, ok := lastInstr(b).(*ssa.Panic); ok {
				file, line = r.P.Pos(pn.Pos())
				bad = "an explicit panic"
			}
		}
		for _, cs := range r.P.Calls(f, true) {
			if cs.Callee == "common.DealWithErr" || strings.HasSuffix(cs.Method, "Panic") || cs.Callee == "encoding/hex.Decode" || cs.Callee == "builtin:copy" && false {
				file, line = cs.File, cs.Line
				bad = "a call of " + cs.Callee + " (panics on error / writes past a fixed-size destination)"
			}
		}
		if bad != "" {
			r.viol("K8-decoder-panic", name, "no panic while decoding parameters", fmt.Sprintf("%s, which decodes request parameters on the RPC call goroutine before any recover is installed, contains %s (%s:%d): one request terminates the node", name, bad, file, line), "parsePositionalArguments runs outside the recovering defer of callback.call", file, line)
		} else {
			r.pass("K8-decoder-panic", name, "no panic while decoding parameters", "", "parsePositionalArguments runs outside the recovering defer of callback.call", file, line)
		}
	}
	if nd < 10 {
		r.viol("vacuous-rule", "", "decoder region", fmt.Sprintf("only %d decoder functions found", nd), "", "", 0)
	}
	// the store-level iterator behind the paged "unreceived" answers returns exactly atMost entries when more exist
	gu := "chain/account/mailbox.(*mailbox).GetUnreceivedAccountBlockHashes"
	r.Alias("$it", "recv.DB.NewIterator(mailbox.getPendingBlocksIterator())")
	r.Returns(gu, []string{"nil, $it.Error()", "nil, types.BytesToHash($it.Key()[1:])#1", "iter(new([0]types.Hash)[:0]), nil", "append(iter(new([0]types.Hash)[:0]),list(types.BytesToHash($it.Key()[1:])#0)), nil"},
		"the limit is tested after the current hash was appended: the early return hands out the list including it (testing first drops the last entry of every full page, and `more`/`count` computed from the length are wrong)")
	r.Branch(gu, "eq((iter(a0)-1),0)", "the countdown stops at exactly atMost entries")
	why1 := "an unbounded page size returns the whole list in one reply; every sibling rejects sizes above the advertised limit"
	n, withParam := 0, 0
	for _, m := range rpcEntries(r) {
		n++
		file, line := r.P.FnPos(m.Fn)
		for _, p := range m.Params {
			withParam++
			parts := strings.Split(p, "@")
			var idx int
			fmt.Sscanf(parts[1], "%d", &idx)
			ok, where := sizeGuarded(r, m.Fn, idx, 3)
			construct := "parameter " + parts[0] + " bounded"
			if ok {
				r.pass("K5-page-limit", m.Name, construct, where, why1, file, line)
			} else {
				r.viol("K5-page-limit", m.Name, construct, fmt.Sprintf("%s: the size parameter %s is used without being rejected above a constant limit (neither here nor in a function it is passed to)", m.Name, parts[0]), why1, file, line)
			}
		}
	}
	if withParam == 0 {
		r.viol("vacuous-rule", "", "rpc entries", "no RPC method with a size parameter found", why1, "", 0)
	}
	r.Notes = append(r.Notes, fmt.Sprintf("K5 page-limit: %d exported methods of *Api types, %d size-like parameters (exhaustive)", n, withParam))
	r.Exhaust = true

	// (2) GetRange and its callers
	gr := "rpc/api.GetRange"
	r.Returns(gr, []string{"a2, a2", "conv:uint32((a0*a1)), a2", "conv:uint32((a0*a1)), conv:uint32(((a0*a1)+a1))"}, "page bounds are start=index·count and end=start+count, clamped to the list length")
	r.Branch(gr, "le(a2,(a0*a1))", "a page starting beyond the list is empty")
	r.Branch(gr, "le(a2,((a0*a1)+a1))", "the last page ends at the list length")
	r.BinOpWidth(gr, 64, "index·count and start+count are computed in 64 bits: in 32 bits page 2^22 of size 1024 wraps to page 0")
	// every slice [start:end] in rpc/api* takes its bounds from one GetRange call whose third argument is the length of the sliced list
	nSl := 0
	for _, name := range r.P.FuncNames() {
		if !strings.HasPrefix(name, "rpc/api") {
			continue
		}
		fn := r.P.Fn(name)
		if fn.Blocks == nil {
			continue
		}
		env := r.P.Env(fn)
		for _, b := range fn.Blocks {
			for _, in := range b.Instrs {
				sl, ok := in.(*ssa.Slice)
				if !ok || sl.Low == nil || sl.High == nil {
					continue
				}
				lo, hi := env.of(sl.Low).String(), env.of(sl.High).String()
				if !strings.Contains(lo, "api.GetRange(") && !strings.Contains(hi, "api.GetRange(") {
					continue
				}
				nSl++
				file, line := r.P.Pos(sl.Pos())
				base := env.of(sl.X).String()
				okSl := strings.HasSuffix(lo, "#0") && strings.HasSuffix(hi, "#1") && strings.TrimSuffix(lo, "#0") == strings.TrimSuffix(hi, "#1") &&
					(strings.Contains(lo, ",conv:uint32(len("+base+")))") || strings.Contains(lo, ",len("+base+"))"))
				if okSl {
					r.pass("K4-page-slice", name, "slice bounds from GetRange over len(list)", "", "a page is cut with both bounds from one GetRange call over the length of the very list that is sliced", file, line)
				} else {
					r.viol("K4-page-slice", name, "slice bounds from GetRange over len(list)", fmt.Sprintf("%s[%s:%s] at %s:%d: the bounds are not the two results of one GetRange(pageIndex,pageSize,len(list)) over the sliced list", base, lo, hi, file, line), "a page is cut with both bounds from one GetRange call over the length of the very list that is sliced", file, line)
				}
			}
		}
	}
	if nSl == 0 {
		r.viol("vacuous-rule", "", "page slices", "no slice bounded by GetRange found", "", "", 0)
	}
	// the two *ByPage ledger methods
	for _, f := range []string{"rpc/api.(*LedgerApi).GetAccountBlocksByPage", "rpc/api.(*LedgerApi).GetMomentumsByPage"} {
		r.GuardLike(f, "lt(1024,a", "page size bounded")
	}
	r.Alias("$sh", "((conv:int64(recv.chain.GetFrontierAccountStore(a0).Frontier()#0.Height)-(conv:int64((a1+1))*conv:int64(a2)))+1)")
	bp := "rpc/api.(*LedgerApi).GetAccountBlocksByPage"
	r.Branch(bp, "lt(0,(1-$sh))", "the last page is detected when the computed start height falls below 1")
	r.Has(bp, "recv.GetAccountBlocksByHeight(a0,conv:uint64(phi($sh|1)),conv:uint64(phi((conv:int64(a2)-(1-$sh))|conv:int64(a2))))", "the last page starts at height 1 and holds the remaining count−(1−start) blocks; every other page starts at frontier+1−(pageIndex+1)·pageSize and holds pageSize blocks")
	r.Branch(bp, "lt(phi((conv:int64(a2)-(1-$sh))|conv:int64(a2)),1)", "a page beyond the first block is empty")
	r.Alias("$mh", "((conv:int64(recv.chain.GetFrontierMomentumStore().GetFrontierMomentum()#0.Height)-(conv:int64((a0+1))*conv:int64(a1)))+1)")
	mp := "rpc/api.(*LedgerApi).GetMomentumsByPage"
	r.Branch(mp, "lt(0,(1-$mh))", "same clamp for momentum pages")

	// (3) recover and codec
	r.RecoverCovers("rpc/server.(*callback).call", []string{"(reflect.Value).Call"}, "a panicking method produces an error response, it does not terminate the server")
	r.WhoMayCallExt("reflective method invocation", "(reflect.Value).Call", []string{"rpc/server.(*callback).call", "vm/abi.*", "common.*"}, false, "registered methods are invoked only under the recovering defer")
	rb := "rpc/server.(*jsonCodec).readBatch"
	r.Has(rb, "store server.parseMessage(new(json.RawMessage))#0[iter] = new(server.jsonrpcMessage)", "a null entry of a batch is replaced by an empty message (answered with an invalid-request error), never left nil for the handler to dereference")
	r.Branch(rb, "eq(nil,server.parseMessage(new(json.RawMessage))#0[iter])", "null entries are detected")
	r.Returns("rpc/server.parseMessage", []string{"list(new(server.jsonrpcMessage)), false", "iter(nil), true"}, "a single request always yields one allocated message; a batch yields one allocated slot per element")
	r.Guards([]row{{F: rb, C: "ne(dyn(recv.decode,new(json.RawMessage)),nil)", Why: "undecodable input is an error"}})
	// (4) nil discipline
	frontier := "the frontier exists once the genesis is inserted"
	ex := map[string]string{}
	for _, s := range r.nilInventory([]string{"rpc/api"}) {
		if !s.Checked && strings.HasSuffix(s.Callee, ".GetFrontierMomentum") {
			ex[s.Fn+"|"+s.Callee] = frontier
		}
	}
	r.NilDiscipline([]string{"rpc/api"}, ex, "client-chosen hashes and heights select the lookups")
}
