package main

import (
	"fmt"
	"regexp"
	"strings"
)

// C12 — plasma and proof-of-work.

func init() {
	register(&propDef{
		ID: "C12",
		Explain: "Structural necessary conditions of 'no block without paying its cost': (1) vm.applyBlock runs enoughPlasma before any execution arm; enoughPlasma rejects fused>available, total>cap, total<base in that order, computes TotalPlasma = DifficultyToPlasma(Difficulty)+FusedPlasma and BasePlasma = GetBasePlasmaForAccountBlock itself (overwriting wire values) and books the fused part with AddChainPlasma only on the success path; " +
			"(2) AvailablePlasma = fused(acknowledged view) + committed(acknowledged view) − uncommitted(block's own account state), negative ⇒ error; DifficultyToPlasma/FussedAmountToPlasma/GetBasePlasmaForAccountBlock keep their caps, branches and result forms; " +
			"(3) verifier.pow: a non-zero difficulty is honoured only for user blocks whose nonce passes CheckPoWNonce, which hashes nonce‖H(address‖previous) of the same block and compares (>=, byte-wise little-endian from the top byte) with 2^64 − 2^64/d; " +
			"(4) K11: every sign-changing/narrowing conversion of a run-time integer in the plasma/PoW functions is triaged (D6: int64(difficulty) in getTargetByDifficulty is a known finding); (5) K5: every embedded Method.GetPlasma returns a field of the plasma table with a nil error.",
		NotDec: "the threshold arithmetic for every d numerically (beyond the expression form), nonce search, multi-block pool accounting on values.",
		Run:    runC12,
		Controls: []control{
			{Name: "plasma-check-after-exec", File: "vm/vm.go", Old: "\tif err := enoughPlasma(vm.context, block); err != nil {\n\t\treturn err\n\t}\n\n\t// In case vm will update some fields of block, make a copy of block.\n", New: "\tif block.BlockType == nom.BlockTypeUserReceive {\n\t\treturn vm.applyReceive(block)\n\t}\n\tif err := enoughPlasma(vm.context, block); err != nil {\n\t\treturn err\n\t}\n", ExpectKeySub: "enoughPlasma"},
			{Name: "base-from-wire", File: "vm/vm.go", Old: "\tblock.BasePlasma, err = GetBasePlasmaForAccountBlock(context, block)\n\tcommon.DealWithErr(err)\n", New: "\tif block.BasePlasma == 0 {\n\t\tblock.BasePlasma, err = GetBasePlasmaForAccountBlock(context, block)\n\t\tcommon.DealWithErr(err)\n\t}\n", ExpectKeySub: "BasePlasma"},
			{Name: "total-lt-to-le", File: "vm/vm.go", Old: "if block.TotalPlasma < block.BasePlasma {", New: "if block.TotalPlasma+1 < block.BasePlasma {", ExpectKeySub: "BasePlasma"},
			{Name: "pow-skip-embedded-order", File: "verifier/account_block.go", Old: "\t\tif !pow.CheckPoWNonce(abv.block) {\n\t\t\treturn ErrABPoWInvalid\n\t\t}\n", New: "\t\tif abv.block.Height > 1 && !pow.CheckPoWNonce(abv.block) {\n\t\t\treturn ErrABPoWInvalid\n\t\t}\n", ExpectKeySub: "CheckPoWNonce"},
			{Name: "target-wrong-formula", File: "pow/pow.go", Old: "\tx.Sub(x, y)\n\tvar target [8]byte", New: "\tx.Sub(x, y).Sub(x, y)\n\tvar target [8]byte", ExpectKeySub: "getTargetByDifficulty"},
			{Name: "nonce-hash-other-block-field", File: "pow/pow.go", Old: "return types.NewHash(append(block.Address.Bytes(), block.PreviousHash.Bytes()...))", New: "return types.NewHash(append(block.Address.Bytes(), block.FromBlockHash.Bytes()...))", ExpectKeySub: "GetAccountBlockHash"},
			{Name: "available-ignores-uncommitted", File: "vm/plasma.go", Old: "\tanswer = answer.Sub(answer, uncommitted)\n", New: "\tanswer = answer.Add(answer, uncommitted)\n", ExpectKeySub: "AvailablePlasma"},
			{Name: "new-int64-conv", File: "vm/plasma.go", Old: "\tnumUnits := amount.Uint64() / constants.CostPerFusionUnit\n", New: "\tnumUnits := uint64(int32(amount.Uint64())) / constants.CostPerFusionUnit\n", ExpectKeySub: "K11-sign-trunc"},
		},
	})
}

func runC12(r *Run) {
	r.Alias("$b", "recv.block")
	r.Alias("$avail", "vm.AvailablePlasma(a0.MomentumStore(),a0)#0")
	r.Alias("$nf", "F(types.IsEmbeddedAddress(a1.Address))")
	r.Alias("$fp", "big.NewInt(conv:int64(vm.FussedAmountToPlasma(a0.GetStakeBeneficialAmount(a1.Address())#0)))")
	r.Alias("$committed", "a0.GetAccountStore(a1.Address()).GetChainPlasma()#0")
	r.Alias("$ans", "new(big.Int).Add($fp,$committed).Sub(new(big.Int).Add($fp,$committed),a1.GetChainPlasma()#0)")
	r.Alias("$m", "embedded.GetEmbeddedMethod(a0,a1.ToAddress,a1.Data)")
	r.Alias("$two64", "new(big.Int).Exp(common.Big2,common.Big64,nil)")

	r.Guards([]row{
		{F: "vm.(*VM).applyBlock", C: "ne(nil,vm.enoughPlasma(recv.context,a0))", Pre: []string{"vm.(*VM).applySend", "vm.(*VM).applyReceive", "vm.(*VM).generateEmbeddedReceive"}, Why: "the cost is checked before any execution arm"},
		{F: "vm.enoughPlasma", C: "lt($avail,a1.FusedPlasma) @ $nf", Pre: []string{".AddChainPlasma"}, Why: "the fused part may not exceed what the account's fused QSR provides after unconfirmed blocks"},
		{F: "vm.enoughPlasma", C: "lt(10500000,a1.TotalPlasma) @ $nf", Pre: []string{".AddChainPlasma"}, Why: "per-block cap"},
		{F: "vm.enoughPlasma", C: "lt(a1.TotalPlasma,a1.BasePlasma) @ $nf", Pre: []string{".AddChainPlasma"}, Why: "total plasma must cover the base cost"},
		{F: "vm.AvailablePlasma", C: "ne(a0.GetAccountStore(a1.Address()).GetChainPlasma()#1,nil)", Why: "lookup failure rejects"},
		{F: "vm.AvailablePlasma", C: "ne(a0.GetStakeBeneficialAmount(a1.Address())#1,nil)", Why: "lookup failure rejects"},
		{F: "vm.AvailablePlasma", C: "ne(a1.GetChainPlasma()#1,nil)", Why: "lookup failure rejects"},
		{F: "vm.AvailablePlasma", C: "lt($ans,0)", Why: "more plasma committed to unconfirmed blocks than fused ⇒ error"},
		{F: "verifier.(*accountBlockVerifier).pow", C: "T(types.IsEmbeddedAddress($b.Address)) @ ne(0,$b.Difficulty)", Why: "contracts carry no PoW"},
		{F: "verifier.(*accountBlockVerifier).pow", C: "F(pow.CheckPoWNonce($b)) @ ne(0,$b.Difficulty)", Why: "every non-zero difficulty claim is checked against the nonce"},
		{F: "verifier.(*accountBlockVerifier).all", C: "ne(nil,recv.pow())", Why: "the PoW check is wired"},
		{F: "vm.GetBasePlasmaForAccountBlock", C: "lt(16384,len(a1.Data)) @ F(a1.IsReceiveBlock()) & F(types.IsEmbeddedAddress(a1.Address)) & eq(constants.ErrNotContractAddress,$m#1)", Why: "data length is bounded"},
		{F: "vm.GetBasePlasmaForAccountBlock", C: "ne($m#1,nil) @ F(a1.IsReceiveBlock()) & F(types.IsEmbeddedAddress(a1.Address)) & ne(constants.ErrNotContractAddress,$m#1)", Why: "unknown contract method has no price ⇒ reject"},
		{F: "pow.greaterDifficulty", C: "lt(a0[iter],a1[iter]) @ le(a0[iter],a1[iter])", Why: "a hash byte below the target byte (scanning from the most significant) fails"},
		{F: "chain/account.(*accountStore).AddChainPlasma", C: "ne(nil,recv.GetChainPlasma()#1)", Why: "read failure rejects"},
	})
	ep := "vm.enoughPlasma"
	r.Has(ep, "store a1.TotalPlasma = (vm.DifficultyToPlasma(a1.Difficulty)+a1.FusedPlasma)", "total = PoW plasma of the stated difficulty + fused part; the wire value is overwritten")
	r.Has(ep, "store a1.BasePlasma = vm.GetBasePlasmaForAccountBlock(a0,a1)#0", "base cost is recomputed by the receiver; the wire value is overwritten")
	r.OnCondMustCall(ep, "F(types.IsEmbeddedAddress(a1.Address))", ".AddChainPlasma|vm.AvailablePlasma", "user blocks always go through the plasma accounting")
	r.Has(ep, "a0.AddChainPlasma(a1.FusedPlasma)", "the fused part is booked against the account's unconfirmed usage")
	r.Order(ep, "vm.AvailablePlasma", ".AddChainPlasma", "available plasma is read before this block's usage is booked")
	r.StoreBefore(ep, "store a1.TotalPlasma = ", "lt(10500000,a1.TotalPlasma) @ F(types.IsEmbeddedAddress(a1.Address))", "the cap is tested on the recomputed total")
	r.StoreBefore(ep, "store a1.BasePlasma = ", "lt(a1.TotalPlasma,a1.BasePlasma) @ F(types.IsEmbeddedAddress(a1.Address))", "the base-cost test uses the recomputed base")

	av := "vm.AvailablePlasma"
	r.Has(av, "new(big.Int).Add($fp,$committed)", "fused + committed of the acknowledged view")
	r.Has(av, "$ans", "− chain plasma of the block's own (pending) account state")
	r.Returns(av, []string{"0, a0.GetAccountStore(a1.Address()).GetChainPlasma()#1", "0, a0.GetStakeBeneficialAmount(a1.Address())#1", "0, a1.GetChainPlasma()#1",
		"0, errors.Errorf(…)", "500000000000, nil", "$ans.Uint64(), nil"}, "result forms of AvailablePlasma")
	r.Branch(av, "lt(constants.MaxFussedAmountForAccountBig,$ans)", "result is capped")

	r.Branch("vm.DifficultyToPlasma", "eq(0,a0)", "zero difficulty earns nothing")
	r.Branch("vm.DifficultyToPlasma", "lt(141750000,a0)", "PoW plasma is capped")
	r.Returns("vm.DifficultyToPlasma", []string{"0", "94500", "(a0/1500)"}, "plasma earned by PoW = difficulty / PoWDifficultyPerPlasma, capped")
	r.Branch("vm.FussedAmountToPlasma", "le(a0,0)", "nothing fused ⇒ no plasma")
	r.Branch("vm.FussedAmountToPlasma", "le(constants.MaxFussedAmountForAccountBig,a0)", "fusion plasma is capped before the uint64 conversion")
	r.Returns("vm.FussedAmountToPlasma", []string{"0", "10500000", "((a0.Uint64()/100000000)*2100)"}, "fusion plasma = units × plasma per unit, capped")
	r.Returns("vm.GetBasePlasmaForAccountBlock", []string{"0, nil", "21000, nil", "0, verifier.ErrABDataTooBig", "conv:uint64(((len(a1.Data)*68)+21000)), nil", "0, $m#1", "$m#0.GetPlasma(constants.AlphanetPlasmaTable)#0, $m#0.GetPlasma(constants.AlphanetPlasmaTable)#1"}, "base cost by block kind: receive, plain send by data length, contract call by method")

	// PoW
	r.Returns("pow.CheckPoWNonce", []string{"pow.greaterDifficulty(pow.hashWithNonce(pow.GetAccountBlockHash(a0),a0.Nonce.Serialize()),pow.getTargetByDifficulty(a0.Difficulty)[:])"}, "nonce, data hash and difficulty all come from the checked block")
	r.Returns("pow.GetAccountBlockHash", []string{"types.NewHash(append(a0.Address.Bytes(),a0.PreviousHash.Bytes()))"}, "PoW is bound to (address, previous hash)")
	r.Has("pow.hashWithNonce", "copy(new([40]byte)[:40],a1[:])", "pre-image = nonce ‖ data hash")
	r.Has("pow.hashWithNonce", "copy(new([40]byte)[:40][copy(new([40]byte)[:40],a1[:]):],a0[:])", "pre-image = nonce ‖ data hash")
	r.Returns("pow.hashWithNonce", []string{"crypto.Hash(list(new([40]byte)[:40]))[:8]"}, "first 8 bytes of the hash are compared")
	tg := "pow.getTargetByDifficulty"
	r.Has(tg, "big.NewInt(0).Quo($two64,big.NewInt(conv:int64(a0)))", "2^64 / d")
	r.Has(tg, "$two64.Sub($two64,big.NewInt(0).Quo($two64,big.NewInt(conv:int64(a0))))", "2^64 − 2^64/d")
	r.Has(tg, "binary.LittleEndian.PutUint64(new([8]byte)[:],$two64.Uint64())", "target bytes little-endian, matching greaterDifficulty's scan from byte 7")
	for _, m := range []string{"Sub", "Quo", "Exp"} {
		r.CallCount(tg, "(*math/big.Int)."+m, 1, "the target is exactly 2^64 − 2^64/d: one Exp, one Quo, one Sub on the accumulator")
	}
	r.Branch(tg, "eq(0,a0)", "difficulty 0 has the zero target (and is never consulted: verifier.pow gates on Difficulty != 0)")
	r.Branch("pow.greaterDifficulty", "lt(a1[iter],a0[iter])", "a hash byte above the target byte passes")
	r.Branch("pow.greaterDifficulty", "le(0,iter)", "scan runs down to byte 0")
	r.Returns("pow.greaterDifficulty", []string{"true", "false"}, "boolean verdict")

	// chain plasma store
	r.Has("chain/account.(*accountStore).AddChainPlasma", "recv.GetChainPlasma()#0.Add(recv.GetChainPlasma()#0,big.NewInt(conv:int64(a0)))", "usage accumulates")
	r.Has("chain/account.(*accountStore).AddChainPlasma", "recv.DB.Put(account.getChainPlasmaKey(),common.BigIntToBytes(recv.GetChainPlasma()#0))", "writer key")
	r.Has("chain/account.(*accountStore).GetChainPlasma", "recv.DB.Get(account.getChainPlasmaKey())", "reader uses the writer's key")

	// K11
	r.SignConversions([]string{tg, "pow.CheckPoWNonce", "pow.hashWithNonce", "pow.greaterDifficulty", av, ep, "vm.DifficultyToPlasma", "vm.FussedAmountToPlasma", "vm.GetBasePlasmaForAccountBlock", "vm.GetDifficultyForPlasma", "chain/account.(*accountStore).AddChainPlasma"},
		map[string]string{
			tg + "|conv:int64(a0)": "unsafe:getTargetByDifficulty converts the block-controlled uint64 difficulty with int64() before big.NewInt: for difficulty >= 2^63 the divisor is negative and the target wraps to ~0, so any nonce is accepted",
			av + "|conv:int64(vm.FussedAmountToPlasma(a0.GetStakeBeneficialAmount(a1.Address())#0))": "bounded: FussedAmountToPlasma caps at MaxFusionPlasmaForAccount (branch le(MaxFussedAmountForAccountBig,amount) checked above)",
			"chain/account.(*accountStore).AddChainPlasma|conv:int64(a0)":                            "bounded: the only caller passes FusedPlasma after the guard available < FusedPlasma ⇒ reject, and AvailablePlasma returns at most MaxFussedAmountForAccount (5·10^11)",
			"vm.GetBasePlasmaForAccountBlock|conv:uint64(((len(a1.Data)*68)+21000))":                 "bounded: len(Data) <= MaxDataLength by the guard checked above; non-negative",
		}, "block-controlled unsigned quantities must not be reinterpreted as signed without a bound")
	r.WhoMayCall("chain-plasma booking", []string{"iface:chain/store:Account.AddChainPlasma"}, []string{ep}, "usage is booked only by the plasma check (the bound on int64(add) relies on it)")

	// K5: price table
	impls := r.methodImpls("vm/embedded", "Method", "GetPlasma")
	// accepted forms (enumerated from the 71 implementers): a table field, a positive multiple of one,
	// or the Plasma field the method object was constructed with
	re := regexp.MustCompile(`^return (a0\.[A-Za-z]+|\([1-9][0-9]*\*a0\.[A-Za-z]+\)|recv\.Plasma), nil$`)
	n := 0
	for _, f := range impls {
		name := r.P.FuncName(f)
		if name == "" || f.Blocks == nil {
			continue
		}
		n++
		file, line := r.P.FnPos(f)
		bad := ""
		for _, e := range r.P.Effects(f) {
			if e.Kind == "return" && !re.MatchString(e.Canon) {
				bad = e.Canon
			}
		}
		if bad != "" {
			r.viol("K5-price-table", name, "GetPlasma returns a table field", fmt.Sprintf("%s returns `%s` instead of a field of the plasma table with a nil error", name, strings.TrimPrefix(bad, "return ")), "every contract method has a non-zero base cost taken from the plasma table", file, line)
		} else {
			r.pass("K5-price-table", name, "GetPlasma returns a table field", "", "every contract method has a non-zero base cost taken from the plasma table", file, line)
		}
	}
	if n == 0 {
		r.viol("vacuous-rule", "", "GetPlasma implementers", "none found", "", "", 0)
	}
	r.Exhaust = true
}
