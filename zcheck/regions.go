package main

// Named regions (entry points by canonical name).
var regionEntries = map[string][]string{
	// consensus-critical region: everything that decides validity or state
	"CCR": {
		"vm.(*Supervisor).ApplyBlock", "vm.(*Supervisor).ApplyMomentum", "vm.(*Supervisor).GenerateAutoReceive",
		"vm.(*Supervisor).GenerateMomentum", "vm.(*Supervisor).GenerateFromTemplate", "vm.(*Supervisor).GenerateGenesisMomentum",
		"verifier.*",
		"chain/momentum.(*momentumStore).AddAccountBlockTransaction",
		"consensus.(*electionManager).*", "consensus.(*electionAlgorithm).*", "consensus.(*points).*", "consensus.(*consensus).VerifyMomentumProducer", "consensus.(*consensus).GetMomentumProducer",
		"chain/genesis.NewGenesis", "common/db.PatchHash",
	},
	// acceptance side only: what decides whether somebody else's block or momentum is valid and what state it produces
	"ACCEPT": {
		"vm.(*Supervisor).ApplyBlock", "vm.(*Supervisor).ApplyMomentum", "chain/momentum.(*momentumStore).AddAccountBlockTransaction", "common/db.PatchHash",
	},
	// parameter decoders that run on the RPC call goroutine before the recovering defer of callback.call
	"DECODE": {"chain/nom.(*AccountBlock).UnmarshalJSON", "chain/nom.(*Nonce).UnmarshalText", "common/types.(*Address).UnmarshalText", "common/types.(*Hash).UnmarshalText", "common/types.(*ZenonTokenStandard).UnmarshalText", "rpc/server.(*BlockNumber).UnmarshalJSON", "rpc/server.(*BlockNumberOrHash).UnmarshalJSON", "rpc/server.parsePositionalArguments", "rpc/server.(*jsonCodec).readBatch", "rpc/server.parseMessage"},
	"PRODUCER": {"vm.(*Supervisor).GenerateAutoReceive"},
	"ELECTION": {
		"consensus.(*electionManager).*", "consensus.(*electionAlgorithm).*", "consensus.(*consensus).VerifyMomentumProducer", "consensus.(*consensus).GetMomentumProducer",
		"chain/momentum.(*momentumStore).ComputePillarDelegations", "consensus.generateProducers", "consensus.genElectionResult",
	},
}
