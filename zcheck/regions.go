package main

// Named regions (entry points by canonical name).
var regionEntries = map[string][]string{
	// consensus-critical region: everything that decides validity or state
	"CCR": {
		"vm.(*Supervisor).ApplyBlock", "vm.(*Supervisor).ApplyMomentum", "vm.(*Supervisor).GenerateAutoReceive",
		"vm.(*Supervisor).GenerateMomentum", "vm.(*Supervisor).GenerateFromTemplate", "vm.(*Supervisor).GenerateGenesisMomentum",
		"verifier.*",
		"chain/momentum.(*momentumStore).AddAccountBlockTransaction",
		"consensus.(*electionManager).*", "consensus.(*electionAlgorithm).*", "consensus.(*points).*", "consensus.(*consensus).VerifyMomentumProducer", "consensus.(*consensus).GetMomentumProducer",
		"chain/genesis.NewGenesis", "common/db.PatchHash",
	},
	// acceptance side only: what decides whether somebody else's block or momentum is valid and what state it produces
	"ACCEPT": {
		"vm.(*Supervisor).ApplyBlock", "vm.(*Supervisor).ApplyMomentum", "chain/momentum.(*momentumStore).AddAccountBlockTransaction", "common/db.PatchHash",
	},
	"PRODUCER": {"vm.(*Supervisor).GenerateAutoReceive"},
	"ELECTION": {
		"consensus.(*electionManager).*", "consensus.(*electionAlgorithm).*", "consensus.(*consensus).VerifyMomentumProducer", "consensus.(*consensus).GetMomentumProducer",
		"chain/momentum.(*momentumStore).ComputePillarDelegations", "consensus.generateProducers", "consensus.genElectionResult",
	},
}
