package main

// C01 — token supply conservation. Decided: the only ways value is created, destroyed or moved
// are the intended ones, and each is paired (debit guarded and exact, credit from the confirmed
// send, failure ⇒ reset ⇒ full refund, mint/burn/issue bookkeeping on one path).

func init() {
	register(&propDef{
		ID: "C01",
		Explain: "Structural necessary conditions of supply conservation: (1) who-may-call whitelist (CHA) for the balance mutators AddBalance/SubBalance/SetBalance — any new caller is reported; " +
			"(2) applySend debits exactly (TokenStandard, Amount) of the block, only after the funds guard balance<amount ⇒ reject and after the contract's ValidateSendBlock; applyReceive credits exactly the (token, amount) of the send fetched by FromBlockHash and only after a successful MarkAsReceived; " +
			"(3) generateEmbeddedReceive: credit of the send's amount after Save(); every failure edge (ReceiveBlock error, descendant applySend error, method-not-found) leads to rollbackEmbedded; rollbackEmbedded resets before re-crediting and refunds exactly send.Amount/send.TokenStandard to send.Address from send.ToAddress whenever Amount>0, and a failing refund returns an error; " +
			"(4) token contract: Mint adds the same parameter amount to TotalSupply, to the contract balance and to the descendant, under guards MaxSupply-TotalSupply<amount ⇒ reject, !IsMintable ⇒ reject, amount<=0 ⇒ reject, owner/embedded permission; Burn subtracts the sent amount from TotalSupply and from the balance; Issue records TotalSupply=param.TotalSupply and credits/sends exactly that; checkToken bounds MaxSupply; " +
			"(5) SubBalance subtracts only on the branch balance>=amount and panics otherwise (no negative balance); balance reader and writer use the same key constructor.",
		NotDec: "the global sum over all accounts and in-flight sends at every height; arithmetic inside reward distribution (C11); that MaxSupply is never exceeded through sequences of operations; genesis equality (C20).",
		Run:    runC01,
		Controls: []control{
			{Name: "new-credit-in-stake", File: "vm/embedded/implementation/stake.go", Old: "\tstakeInfo.Amount = common.Big0\n", New: "\tstakeInfo.Amount = common.Big0\n\tcontext.AddBalance(&types.ZnnTokenStandard, big.NewInt(1))\n", ExpectKeySub: "balance mutators"},
			{Name: "refund-constant", File: "vm/vm.go", Old: "Amount:        new(big.Int).Set(sendBlock.Amount),", New: "Amount:        big.NewInt(1),", ExpectKeySub: "new(nom.AccountBlock).Amount"},
			{Name: "reset-removed", File: "vm/vm.go", Old: "\tvm.context.Reset()\n", New: "", ExpectKeySub: ".Reset"},
			{Name: "mint-wrong-amount", File: "vm/embedded/implementation/token.go", Old: "context.AddBalance(&param.TokenStandard, param.Amount)", New: "context.AddBalance(&param.TokenStandard, tokenInfo.MaxSupply)", ExpectKeySub: "AddBalance"},
			{Name: "mint-guard-weakened", File: "vm/embedded/implementation/token.go", Old: "Cmp(param.Amount) < 0 {", New: "Cmp(param.Amount) < -1 {", ExpectKeySub: "MaxSupply"},
			{Name: "receive-credit-before-mark", File: "vm/vm.go", Old: "\terr = vm.context.MarkAsReceived(block.FromBlockHash)\n\tif err != nil {\n\t\treturn err\n\t}\n\n\tvm.context.AddBalance(&fromBlock.TokenStandard, fromBlock.Amount)\n", New: "\tvm.context.AddBalance(&fromBlock.TokenStandard, fromBlock.Amount)\n\terr = vm.context.MarkAsReceived(block.FromBlockHash)\n\tif err != nil {\n\t\treturn err\n\t}\n", ExpectKeySub: "MarkAsReceived"},
			{Name: "descendant-error-swallowed", File: "vm/vm.go", Old: "\t\terr := vm.applySend(dblock)\n\t\tif err != nil {\n\t\t\treturn vm.rollbackEmbedded(fromBlockHash, err)\n\t\t}\n", New: "\t\terr := vm.applySend(dblock)\n\t\tif err != nil {\n\t\t\tbreak\n\t\t}\n", ExpectKeySub: "applySend"},
			{Name: "subbalance-allows-negative", File: "vm/vm_context/balance.go", Old: "if b.Cmp(amount) >= 0 {", New: "if b.Cmp(amount) >= -1 {", ExpectKeySub: "SubBalance"},
			{Name: "regenerated-hash-self-compare", File: "vm/vm.go", Old: "computed := generated.ComputeHash()", New: "computed := block.ComputeHash()", ExpectKeySub: "ComputeHash"},
			{Name: "burn-skips-supply", File: "vm/embedded/implementation/token.go", Old: "\ttokenInfo.TotalSupply.Sub(tokenInfo.TotalSupply, sendBlock.Amount)\n", New: "", ExpectKeySub: "TotalSupply.Sub"},
		},
	})
}

func runC01(r *Run) {
	genesisSupplyRules(r) // the supply recorded at genesis equals the balances created at genesis
	descendantHashBinding(r)
	contextProvenanceRules(r) // balances are checked against the block's previous, not the frontier
	acceptancePathRules(r)
	const impl = "vm/embedded/implementation."
	r.Alias("$from", "recv.context.MomentumStore().GetAccountBlockByHash(a0.FromBlockHash)#0")
	r.Alias("$send", "recv.context.MomentumStore().GetAccountBlockByHash(a0)#0")
	r.Alias("$method", "embedded.GetEmbeddedMethod(recv.context,$send.ToAddress,$send.Data)")
	r.Alias("$mp", "new(definition.MintParam)")
	r.Alias("$ip", "new(definition.IssueParam)")
	r.Alias("$mti", "definition.GetTokenInfo(a0.Storage(),$mp.TokenStandard)#0")
	r.Alias("$bti", "definition.GetTokenInfo(a0.Storage(),a1.TokenStandard)#0")

	// (1) who may move value
	r.WhoMayCall("balance mutators AddBalance/SubBalance",
		[]string{"iface:vm/vm_context:AccountVmContext.AddBalance", "iface:vm/vm_context:AccountVmContext.SubBalance"},
		[]string{"vm.(*VM).applySend", "vm.(*VM).applyReceive", "vm.(*VM).generateEmbeddedReceive", "vm.(*VM).rollbackEmbedded",
			impl + "(*IssueMethod).ReceiveBlock", impl + "(*MintMethod).ReceiveBlock", impl + "(*BurnMethod).ReceiveBlock"},
		"value moves only through send/receive execution and the token contract's issue/mint/burn; any other caller creates or destroys tokens outside the supply bookkeeping")
	r.WhoMayCall("raw balance write SetBalance",
		[]string{"iface:chain/store:Account.SetBalance"},
		[]string{"vm/vm_context.(*accountVmContext).AddBalance", "vm/vm_context.(*accountVmContext).SubBalance", "chain/genesis.wrap"},
		"SetBalance overwrites a balance without pairing; only the guarded Add/Sub wrappers and genesis construction may use it")

	// (2) debit / credit
	r.Guards([]row{
		{F: "vm.(*VM).applySend", C: "F(vm.enoughFunds(recv.context,a0))", Pre: []string{".SubBalance"}, Why: "a send may not spend more than the account holds"},
		{F: "vm.enoughFunds", C: "lt(a0.GetBalance(a1.TokenStandard)#0,a1.Amount) @ ne(a1.TokenStandard,types.ZeroTokenStandard)", Why: "the compared balance is the one of the sent token and the compared amount is the sent amount"},
		{F: "vm.(*VM).applyReceive", C: "ne(nil,recv.context.MomentumStore().GetAccountBlockByHash(a0.FromBlockHash)#1)", Pre: []string{".AddBalance"}, Why: "no credit without the confirmed send"},
		{F: "vm.(*VM).applyReceive", C: "ne(nil,recv.context.MarkAsReceived(a0.FromBlockHash))", Pre: []string{".AddBalance"}, Why: "a send is credited only if it could be marked received (once)"},
		{F: "vm/vm_context.(*accountVmContext).SubBalance", C: "lt(recv.Account.GetBalance(a0)#0,a1)", Pre: []string{".SetBalance", "(*math/big.Int).Sub"}, Why: "no balance ever goes negative: the subtraction happens only when balance >= amount, otherwise panic (rejection)"},
	})
	r.Always("vm.(*VM).applySend", "recv.context.SubBalance(a0.TokenStandard,a0.Amount)", "every accepted send debits exactly its token and amount")
	r.Always("vm.(*VM).applyReceive", "recv.context.AddBalance($from.TokenStandard,$from.Amount)", "a receive credits exactly the token and amount of the referenced send")
	r.Has("vm/vm_context.(*accountVmContext).SubBalance", "recv.Account.GetBalance(a0)#0.Sub(recv.Account.GetBalance(a0)#0,a1)", "debit is balance - amount")
	r.Has("vm/vm_context.(*accountVmContext).SubBalance", "recv.Account.SetBalance(a0,recv.Account.GetBalance(a0)#0)", "the new balance is stored under the same token")
	r.Has("vm/vm_context.(*accountVmContext).AddBalance", "recv.Account.GetBalance(a0)#0.Add(recv.Account.GetBalance(a0)#0,a1)", "credit is balance + amount")
	r.Has("vm/vm_context.(*accountVmContext).AddBalance", "recv.Account.SetBalance(a0,recv.Account.GetBalance(a0)#0)", "the new balance is stored under the same token")
	r.Has("chain/account.(*accountStore).GetBalance", "recv.DB.Get(account.getBalanceKey(a0))", "reader and writer of a balance use the same key constructor")
	r.Has("chain/account.(*accountStore).SetBalance", "recv.DB.Put(account.getBalanceKey(a0),common.BigIntToBytes(a1))", "reader and writer of a balance use the same key constructor")

	// (2b) a credit happens at most once per send and contract receives are the node's own computation
	r.Guards([]row{
		{F: "verifier.(*accountBlockVerifier).fromHash", C: "T(recv.accountStore.IsReceived(recv.block.FromBlockHash)) @ F(recv.block.IsSendBlock())", Why: "a send credited twice creates tokens: the already-received test must read the block's own (pending) account state"},
		{F: "verifier.(*accountBlockVerifier).fromHash", C: "eq(nil,recv.momentumStore.GetAccountBlockByHash(recv.block.FromBlockHash)#0) @ F(recv.block.IsSendBlock())", Why: "only a confirmed send can be credited"},
		{F: "verifier.(*accountBlockVerifier).sequencer", C: "ne(recv.accountStore.SequencerFront(recv.momentumStore.GetAccountMailbox(recv.block.Address)),recv.momentumStore.GetAccountBlockByHash(recv.block.FromBlockHash)#0.Header()) @ T(recv.block.IsReceiveBlock()) & T(types.IsEmbeddedAddress(recv.block.Address))", Why: "a contract credits each queued send once: the received send must be the next in line"},
		{F: "vm.(*VM).applyBlock", C: "ne(a0.ChangesHash,recv.generateEmbeddedReceive(a0.FromBlockHash)#0.ChangesHash) @ ne(2,a0.BlockType) & ne(3,a0.BlockType) & ne(4,a0.BlockType)", Why: "a submitted contract receive must have the state effect the node computes itself"},
		{F: "vm.(*VM).applyBlock", C: "ne(a0.Hash,recv.generateEmbeddedReceive(a0.FromBlockHash)#0.ComputeHash()) @ ne(2,a0.BlockType) & ne(3,a0.BlockType) & ne(4,a0.BlockType)", Why: "a submitted contract receive (incl. descendant amounts and recipients) must equal the regenerated one, or a forged descendant credits more than the contract was debited"},
		{F: "vm.(*VM).applyBlock", C: "ne(nil,vm.enoughPlasma(recv.context,a0))", Why: "shared entry"},
	})

	// (3) embedded receive: credit, failure ⇒ rollback ⇒ refund
	gen := "vm.(*VM).generateEmbeddedReceive"
	r.Has(gen, "recv.context.AddBalance($send.TokenStandard,$send.Amount)", "the contract is credited exactly what was sent to it")
	r.Order(gen, ".Save", ".AddBalance", "the credit must be inside the saved region so that Reset undoes it")
	r.Order(gen, ".Save", ".ReceiveBlock", "contract code runs inside the saved region")
	r.OnErrorMustCall(gen, ".ReceiveBlock", "vm.(*VM).rollbackEmbedded", "a failing contract call is rolled back and refunded")
	r.OnErrorMustCall(gen, "vm.(*VM).applySend", "vm.(*VM).rollbackEmbedded", "a descendant that cannot be paid rolls the whole call back")
	r.OnCondMustCall(gen, "eq(constants.ErrContractMethodNotFound,$method#1)", "vm.(*VM).rollbackEmbedded", "a method that disappeared between send and receive is refunded")
	r.MustPassAny(gen, []string{".Done", "vm.(*VM).rollbackEmbedded"}, "state changes are committed (Done) only on the success path; every other exit is a rollback")
	r.MustPassAny(gen, []string{"vm.(*VM).finalizeEmbedded", "vm.(*VM).rollbackEmbedded"}, "the receive block is always finalised from the executed context")
	r.ArgIs(gen, "vm.(*VM).applySend", 0, []string{r.X("$method#0.ReceiveBlock(recv.context,$send)#0[iter]")}, "every descendant returned by the contract is applied (debited) through applySend")
	r.Has(gen, r.X("recv.finalizeEmbedded(a0,$method#0.ReceiveBlock(recv.context,$send)#0,nil)"), "the finalised block carries exactly the descendants that were debited")

	rb := "vm.(*VM).rollbackEmbedded"
	r.Order(rb, ".Reset", ".AddBalance", "the re-credit for the refund must come after the reset, or it is wiped / doubled")
	r.Order(rb, ".Reset", "vm.(*VM).applySend", "the refund is debited from the reset state")
	r.Has(rb, "recv.context.AddBalance($send.TokenStandard,$send.Amount)", "the contract is re-credited exactly the sent amount before refunding it")
	r.Has(rb, "store new(nom.AccountBlock).Amount = new(big.Int).Set($send.Amount)", "refund amount is exactly the sent amount")
	r.Has(rb, "store new(nom.AccountBlock).TokenStandard = $send.TokenStandard", "refund token is the sent token")
	r.Has(rb, "store new(nom.AccountBlock).ToAddress = $send.Address", "refund goes back to the sender")
	r.Has(rb, "store new(nom.AccountBlock).Address = $send.ToAddress", "refund is sent by the called contract")
	r.Has(rb, "recv.applySend(new(nom.AccountBlock))", "the refund is debited through applySend")
	r.Has(rb, "store new([1]*nom.AccountBlock)[0] = new(nom.AccountBlock)", "the refund block is part of the receive's descendants")
	r.Guards([]row{
		{F: rb, C: "ne(nil,recv.applySend(new(nom.AccountBlock))) @ lt(0,$send.Amount)", Why: "the refund is made whenever a positive amount was sent, and a refund that cannot be applied is an error, not a silent loss"},
	})
	r.Has("vm.(*VM).finalizeEmbedded", "store new(nom.AccountBlock).DescendantBlocks = a1", "descendants in the block are the applied ones")
	r.Has("vm.(*VM).finalizeEmbedded", "store new(nom.AccountBlock).ChangesHash = db.PatchHash(recv.context.Changes()#0)", "the receive commits to the state change it made")

	// context lifecycle: Save snapshots, Reset restores, Done merges
	r.Has("vm/vm_context.(*accountVmContext).Save", "store recv.accountStoreSnapshot = recv.Account", "Save keeps the pre-call state")
	r.Has("vm/vm_context.(*accountVmContext).Save", "store recv.Account = recv.Account.Snapshot()", "contract code writes into a snapshot")
	r.Has("vm/vm_context.(*accountVmContext).Reset", "store recv.Account = recv.accountStoreSnapshot", "Reset discards everything written since Save")
	r.Has("vm/vm_context.(*accountVmContext).Done", "recv.Account.Apply(recv.Account.Changes()#0)", "Done merges the call's writes")

	// (4) token contract bookkeeping
	mint := impl + "(*MintMethod).ReceiveBlock"
	r.Guards([]row{
		{F: mint, C: "ne(nil,recv.ValidateSendBlock(a1))", Pre: []string{".AddBalance", "(*math/big.Int).Add"}, Why: "receive re-validates the call"},
		{F: mint, C: "eq(constants.ErrDataNonExistent,definition.GetTokenInfo(a0.Storage(),$mp.TokenStandard)#1)", Pre: []string{".AddBalance"}, Why: "unknown token cannot be minted"},
		{F: mint, C: "F($mti.IsMintable)", Pre: []string{".AddBalance", "(*math/big.Int).Add"}, Why: "non-mintable tokens cannot be minted"},
		{F: mint, C: "lt(new(big.Int).Sub($mti.MaxSupply,$mti.TotalSupply),$mp.Amount)", Pre: []string{".AddBalance", "(*math/big.Int).Add"}, Why: "total supply never exceeds max supply"},
		{F: mint, C: "F(types.IsEmbeddedAddress(a1.Address)) @ eq($mp.TokenStandard,types.ZnnTokenStandard)", Pre: []string{".AddBalance"}, Why: "only embedded contracts mint ZNN"},
		{F: mint, C: "F(types.IsEmbeddedAddress(a1.Address)) @ eq($mp.TokenStandard,types.QsrTokenStandard) & ne($mp.TokenStandard,types.ZnnTokenStandard)", Pre: []string{".AddBalance"}, Why: "only embedded contracts mint QSR"},
		{F: mint, C: "ne(a1.Address,$mti.Owner) @ ne($mp.TokenStandard,types.QsrTokenStandard) & ne($mp.TokenStandard,types.ZnnTokenStandard)", Pre: []string{".AddBalance"}, Why: "only the owner mints a user token"},
		{F: impl + "(*MintMethod).ValidateSendBlock", C: "le($mp.Amount,0)", Why: "mint amount must be positive"},
		{F: impl + "(*MintMethod).ValidateSendBlock", C: "ne(0,a0.Amount)", Why: "a mint call carries no value"},
		{F: impl + "(*BurnMethod).ValidateSendBlock", C: "le(a0.Amount,0)", Why: "burn amount must be positive"},
		{F: impl + "(*BurnMethod).ReceiveBlock", C: "ne(nil,recv.ValidateSendBlock(a1))", Pre: []string{".SubBalance"}, Why: "receive re-validates the call"},
		{F: impl + "(*BurnMethod).ReceiveBlock", C: "eq(constants.ErrDataNonExistent,definition.GetTokenInfo(a0.Storage(),a1.TokenStandard)#1)", Pre: []string{".SubBalance"}, Why: "unknown token cannot be burned"},
		{F: impl + "(*BurnMethod).ReceiveBlock", C: "ne(a1.Address,$bti.Owner) @ F($bti.IsBurnable)", Pre: []string{".SubBalance"}, Why: "non-burnable tokens are burned only by their owner"},
		{F: impl + "(*IssueMethod).ValidateSendBlock", C: "ne(implementation.checkToken($ip),nil)", Why: "issue parameters are bounded"},
		{F: impl + "(*IssueMethod).ValidateSendBlock", C: "ne(a0.TokenStandard,types.ZnnTokenStandard)", Why: "issue fee is paid in ZNN"},
		{F: impl + "(*IssueMethod).ValidateSendBlock", C: "ne(a0.Amount,constants.TokenIssueAmount)", Why: "issue fee is exact"},
		{F: impl + "(*IssueMethod).ReceiveBlock", C: "ne(nil,recv.ValidateSendBlock(a1))", Pre: []string{".AddBalance"}, Why: "receive re-validates the call"},
		{F: impl + "(*IssueMethod).ReceiveBlock", C: "eq(definition.GetTokenInfo(a0.Storage(),implementation.newTokenID(a1.Hash))#1,nil) @ ne(constants.ErrDataNonExistent,definition.GetTokenInfo(a0.Storage(),implementation.newTokenID(a1.Hash))#1)", Pre: []string{".AddBalance"}, Why: "an existing token is never re-issued (its supply record would be overwritten)"},
		{F: impl + "checkToken", C: "lt(constants.TokenMaxSupplyBig,a0.MaxSupply)", Why: "max supply is bounded by the protocol maximum"},
		{F: impl + "checkToken", C: "eq(a0.MaxSupply,common.Big0)", Why: "max supply is positive"},
		{F: impl + "checkToken", C: "lt(a0.MaxSupply,a0.TotalSupply)", Why: "initial supply never exceeds max supply"},
		{F: impl + "checkToken", C: "ne(a0.MaxSupply,a0.TotalSupply) @ F(a0.IsMintable)", Why: "non-mintable tokens have supply = max"},
	})
	r.Always(mint, "$mti.TotalSupply.Add($mti.TotalSupply,$mp.Amount)", "recorded supply grows by exactly the minted amount")
	r.Always(mint, "a0.AddBalance($mp.TokenStandard,$mp.Amount)", "the token contract is credited exactly the minted amount of the minted token")
	r.Always(mint, "$mti.Save(a0.Storage())", "the updated supply is persisted")
	r.Has(mint, "store new(nom.AccountBlock).Amount = $mp.Amount", "the minted amount is forwarded to the beneficiary")
	r.Has(mint, "store new(nom.AccountBlock).TokenStandard = $mp.TokenStandard", "the forwarded token is the minted token")
	r.Has(mint, "store new(nom.AccountBlock).ToAddress = $mp.ReceiveAddress", "forwarded to the named beneficiary")
	burn := impl + "(*BurnMethod).ReceiveBlock"
	r.Always(burn, "$bti.TotalSupply.Sub($bti.TotalSupply,a1.Amount)", "recorded supply shrinks by exactly the burned amount")
	r.Always(burn, "a0.SubBalance(a1.TokenStandard,a1.Amount)", "the burned tokens leave the token contract's balance")
	r.Always(burn, "$bti.Save(a0.Storage())", "the updated supply is persisted")
	issue := impl + "(*IssueMethod).ReceiveBlock"
	r.Has(issue, "store new(definition.TokenInfo).TotalSupply = $ip.TotalSupply", "recorded supply of a new token is the issued supply")
	r.Has(issue, "store new(definition.TokenInfo).MaxSupply = $ip.MaxSupply", "recorded max supply is the validated one")
	r.Has(issue, "store new(definition.TokenInfo).TokenStandard = implementation.newTokenID(a1.Hash)", "token id is derived from the issuing send")
	r.Always(issue, "a0.AddBalance(implementation.newTokenID(a1.Hash),$ip.TotalSupply)", "exactly the issued supply of the new token is created")
	r.Always(issue, "new(definition.TokenInfo).Save(a0.Storage())", "the supply record is persisted")
	r.Has(issue, "store new(nom.AccountBlock).Amount = $ip.TotalSupply", "the issued supply is forwarded to the issuer")
	r.Has(issue, "store new(nom.AccountBlock).TokenStandard = implementation.newTokenID(a1.Hash)", "forwarded token is the new token")
	r.Has(issue, "store new(nom.AccountBlock).ToAddress = a1.Address", "forwarded to the issuer")
	upd := impl + "(*UpdateTokenMethod).ReceiveBlock"
	r.Has(upd, "store definition.GetTokenInfo(a0.Storage(),new(definition.UpdateTokenParam).TokenStandard)#0.MaxSupply = definition.GetTokenInfo(a0.Storage(),new(definition.UpdateTokenParam).TokenStandard)#0.TotalSupply", "disabling minting freezes max supply at the current supply (never below it)")

	// writers of the supply fields
	r.FieldWriters("vm/embedded/definition", "TokenInfo", "TotalSupply",
		[]string{issue, mint, burn, "vm/embedded/definition.*", "chain/genesis.*", "rpc/api/embedded.*"},
		"recorded supply changes only through issue, mint and burn")
	r.FieldWriters("vm/embedded/definition", "TokenInfo", "MaxSupply",
		[]string{issue, burn, upd, "vm/embedded/definition.*", "chain/genesis.*", "rpc/api/embedded.*"},
		"max supply changes only through issue, burn of non-mintable tokens and the mintable→non-mintable update")
}
