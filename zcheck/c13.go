package main

import (
	"fmt"
	"sort"
	"strings"

	"golang.org/x/tools/go/ssa"
)

// C13 — a block's hash pins down its stored bytes and its effect.

func init() {
	register(&propDef{
		ID: "C13",
		Explain: "Structural necessary conditions: (1) K10 pre-image coverage: the set of AccountBlock/Momentum fields read by ComputeHash (transitively) is computed; every other field must have a checked disposition — Hash compared, PublicKey bound to the address, Signature verified, producer/Timestamp caches not serialised, BasePlasma/TotalPlasma overwritten by the receiver before packing, ChangesHash compared — per class of block; a new struct field without disposition is reported (two dispositions fail today: known findings D11, D11b); " +
			"(2) K10 codec field agreement: Proto/DeProto of AccountBlock and Momentum, and the JSON marshal pair, write and read exactly the serialisable fields; (3) K5 canonical call data, exhaustive over all implementers of embedded.Method: every success path of ValidateSendBlock re-assigns block.Data from an ABI PackMethod result and every unpack error returns non-nil; applySend validates the very block it debits (not a copy) before the debit.",
		NotDec: "decode(encode(b)) == b on values; JSON number forms; two-node delivery; that the PackMethod arguments equal the unpacked values field by field (only that Data is re-packed on every accepting path).",
		Run:    runC13,
		Controls: []control{
			{Name: "validate-copy", File: "vm/vm.go", Old: "err = method.ValidateSendBlock(block)", New: "err = method.ValidateSendBlock(block.Copy())", ExpectKeySub: "ValidateSendBlock"},
			{Name: "repack-removed", File: "vm/embedded/implementation/token.go", Old: "\tif block.Amount.Sign() != 1 {\n\t\treturn constants.ErrInvalidTokenOrAmount\n\t}\n\n\tblock.Data, err = definition.ABIToken.PackMethod(p.MethodName)\n\treturn err", New: "\tif block.Amount.Sign() != 1 {\n\t\treturn constants.ErrInvalidTokenOrAmount\n\t}\n\n\t_, err = definition.ABIToken.PackMethod(p.MethodName)\n\treturn err", ExpectKeySub: "BurnMethod"},
			{Name: "hash-skips-field", File: "chain/nom/account_block.go", Old: "\t\tab.FromBlockHash.Bytes(),\n\t\tab.DescendantBlocksHash().Bytes(),", New: "\t\tab.DescendantBlocksHash().Bytes(),", ExpectKeySub: "FromBlockHash"},
			{Name: "deproto-drops-field", File: "chain/nom/account_block.go", Old: "\t\tDifficulty:           pb.Difficulty,\n\t\tNonce:                DeSerializeNonce(pb.Nonce),", New: "\t\tNonce:                DeSerializeNonce(pb.Nonce),", ExpectKeySub: "DeProtoAccountBlock"},
			{Name: "baseplasma-from-wire", File: "vm/vm.go", Old: "\tblock.BasePlasma, err = GetBasePlasmaForAccountBlock(context, block)\n\tcommon.DealWithErr(err)\n", New: "\tif block.BasePlasma == 0 {\n\t\tblock.BasePlasma, err = GetBasePlasmaForAccountBlock(context, block)\n\t\tcommon.DealWithErr(err)\n\t}\n", ExpectKeySub: "BasePlasma"},
			{Name: "momentum-hash-skips-changes", File: "chain/nom/momentum.go", Old: "\t\tm.Content.Hash().Bytes(),\n\t\tm.ChangesHash.Bytes(),", New: "\t\tm.Content.Hash().Bytes(),", ExpectKeySub: "ChangesHash"},
			{Name: "unpack-error-ignored", File: "vm/embedded/implementation/token.go", Old: "\tif err := definition.ABIToken.UnpackMethod(param, p.MethodName, block.Data); err != nil {\n\t\treturn constants.ErrUnpackError\n\t}\n\tif param.Amount.Sign() <= 0 {", New: "\t_ = definition.ABIToken.UnpackMethod(param, p.MethodName, block.Data)\n\tif param.Amount == nil || param.Amount.Sign() <= 0 {", ExpectKeySub: "MintMethod"},
		},
	})
}

// canonicalCallData: K5 over every implementer of embedded.Method.ValidateSendBlock.
func canonicalCallData(r *Run) {
	why := "call data is stored in one canonical encoding: the validator replaces block.Data by the re-packed form of what it unpacked, so two encodings of the same call cannot both be accepted with different hashes/bytes"
	impls := r.methodImpls("vm/embedded", "Method", "ValidateSendBlock")
	n := 0
	for _, f := range impls {
		name := r.P.FuncName(f)
		if name == "" || f.Blocks == nil {
			continue
		}
		n++
		fi := r.P.Info(f)
		file, line := r.P.FnPos(f)
		// stores to a0.Data whose value is a Pack result
		var packStores []*ssa.Store
		for _, b := range f.Blocks {
			for _, in := range b.Instrs {
				st, ok := in.(*ssa.Store)
				if !ok {
					continue
				}
				if fi.env.of(st.Addr).String() != "a0.Data" {
					continue
				}
				v := fi.env.of(st.Val).String()
				if strings.Contains(v, ".PackMethod(") || strings.Contains(v, ".PackMethodPanic(") {
					packStores = append(packStores, st)
				}
			}
		}
		bad := ""
		for b := range fi.okBlock {
			ok := false
			for _, st := range packStores {
				if st.Block() == b || st.Block().Dominates(b) {
					ok = true
				}
			}
			if !ok {
				f2, l2 := r.P.Pos(lastInstr(b).Pos())
				bad = fmt.Sprintf("the accepting return at %s:%d is reachable without block.Data having been re-assigned from an ABI PackMethod result", f2, l2)
			}
		}
		// unpack errors must reject
		for _, cs := range r.P.Calls(f, false) {
			if !strings.HasPrefix(cs.Method, "Unpack") {
				continue
			}
			if errResultIndex(cs.Instr.Common().Signature()) < 0 {
				continue
			}
			from, okSucc := r.P.nilErrEdge(cs.Instr)
			if from == nil {
				if !returnsCallResult(cs.Instr) {
					bad = fmt.Sprintf("the error of %s at %s:%d is not tested: malformed call data is not rejected", cs.Method, cs.File, cs.Line)
				}
				continue
			}
			for _, s := range from.Succs {
				if s != okSucc && fi.canOK[s] {
					bad = fmt.Sprintf("a failing %s at %s:%d can still lead to acceptance", cs.Method, cs.File, cs.Line)
				}
			}
		}
		if bad != "" {
			r.viol("K5-canonical-call-data", name, "Data re-packed on every accepting path", name+": "+bad, why, file, line)
		} else {
			r.pass("K5-canonical-call-data", name, "Data re-packed on every accepting path", fmt.Sprintf("%d pack store(s)", len(packStores)), why, file, line)
		}
	}
	if n == 0 {
		r.viol("vacuous-rule", "", "ValidateSendBlock implementers", "none found", why, "", 0)
	}
	r.Notes = append(r.Notes, fmt.Sprintf("K5 canonical call data: %d implementers of embedded.Method.ValidateSendBlock analysed (exhaustive)", n))
}

func fmtSet(m map[string]bool) string {
	var xs []string
	for k := range m {
		xs = append(xs, k)
	}
	sort.Strings(xs)
	return strings.Join(xs, ",")
}

// preimage: hash pre-image coverage and dispositions of the uncovered fields.
func preimage(r *Run) {
	why := "a field that is serialised but neither covered by the hash nor otherwise pinned lets two accepted variants of one hash differ in stored bytes"
	// ---- AccountBlock
	ab := r.namedType("chain/nom", "AccountBlock")
	ch := r.fn("chain/nom.(*AccountBlock).ComputeHash")
	if ab != nil && ch != nil {
		covered := r.P.fieldsRead(ch, ab, 2, map[*ssa.Function]bool{})
		all := toSet(structFields(ab))
		uncovered := setDiff(all, covered)
		disp := map[string]string{
			"Hash":        "compared with ComputeHash() by accountBlockTransactionVerifier.hash (C03 row)",
			"PublicKey":   "user blocks: PubKeyToAddress(PublicKey) must equal Address; contract blocks: must be empty (C03 rows)",
			"Signature":   "user blocks: verified over Hash (deterministic Ed25519; only the key holder can make a second one — the stated exception); contract blocks: must be empty",
			"producer":    "unexported cache, not serialised (checked below: Proto does not read it)",
			"BasePlasma":  "recomputed and overwritten by the receiver before packing (checked below per block class)",
			"TotalPlasma": "recomputed and overwritten by the receiver before packing (checked below per block class)",
			"ChangesHash": "compared with the receiver's own computation (checked below per block class)",
		}
		file, line := r.P.FnPos(ch)
		for _, f := range uncovered {
			if d, ok := disp[f]; ok {
				r.pass("K10-preimage-coverage", "chain/nom.(*AccountBlock).ComputeHash", "uncovered field "+f+" has a disposition", d, why, file, line)
			} else {
				r.viol("K10-preimage-coverage", "chain/nom.(*AccountBlock).ComputeHash", "uncovered field "+f+" has a disposition", "field AccountBlock."+f+" is not read by ComputeHash and has no recorded disposition (compared / bound / verified / overwritten by the receiver / not serialised)", why, file, line)
			}
		}
		for _, f := range []string{"Version", "ChainIdentifier", "BlockType", "PreviousHash", "Height", "MomentumAcknowledged", "Address", "ToAddress", "Amount", "TokenStandard", "FromBlockHash", "DescendantBlocks", "Data", "FusedPlasma", "Difficulty", "Nonce"} {
			if covered[f] {
				r.pass("K10-preimage-coverage", "chain/nom.(*AccountBlock).ComputeHash", "covers "+f, "", "the hash commits to this field", file, line)
			} else {
				r.viol("K10-preimage-coverage", "chain/nom.(*AccountBlock).ComputeHash", "covers "+f, "ComputeHash no longer reads AccountBlock."+f+": the hash does not commit to it any more", "the hash commits to this field", file, line)
			}
		}
		r.Returns("chain/nom.(*AccountBlock).DescendantBlocksHash", []string{"types.NewHash(iter(make([]byte,0,(32*len(recv.DescendantBlocks)))))"}, "descendants enter the pre-image through their own hashes, in order")
	}
	// dispositions that need a per-class check
	ep := "vm.enoughPlasma"
	r.StoreContext(ep, "store a1.TotalPlasma = ", "F(types.IsEmbeddedAddress(a1.Address))", "user blocks: TotalPlasma is overwritten by the receiver on every accepting path")
	r.StoreContext(ep, "store a1.BasePlasma = ", "F(types.IsEmbeddedAddress(a1.Address))", "user blocks: BasePlasma is overwritten by the receiver on every accepting path")
	r.Guards([]row{
		{F: "vm.(*VM).applyBlock", C: "ne(nil,vm.enoughPlasma(recv.context,a0))", Why: "the overwrite happens before anything else"},
		{F: "vm.(*VM).applyBlock", C: "ne(a0.ChangesHash,recv.generateEmbeddedReceive(a0.FromBlockHash)#0.ChangesHash) @ ne(2,a0.BlockType) & ne(3,a0.BlockType) & ne(4,a0.BlockType)", Why: "contract receive: ChangesHash compared with the regenerated block"},
		{F: "vm.(*VM).applyBlock", C: "ne(a0.Hash,recv.generateEmbeddedReceive(a0.FromBlockHash)#0.ComputeHash()) @ ne(2,a0.BlockType) & ne(3,a0.BlockType) & ne(4,a0.BlockType)", Why: "contract receive: every hashed field (incl. descendants' hashes) equals the regenerated block"},
	})
	// contract blocks: enoughPlasma returns before the overwrite, and packBlock wraps the delivered block
	if fn := r.fn(ep); fn != nil {
		file, line := r.P.FnPos(fn)
		exempt := false
		for _, g := range r.P.Info(fn).guards {
			if g.Cond.String() == "T(types.IsEmbeddedAddress(a1.Address))" && g.Reject == "" {
				exempt = true
				file, line = g.File, g.Line
			}
		}
		overwrittenForContracts := false
		for _, e := range r.P.Effects(r.P.Fn("vm.(*VM).applyBlock")) {
			if e.Kind == "store" && (strings.HasPrefix(e.Canon, "store a0.TotalPlasma = ") || strings.HasPrefix(e.Canon, "store a0.BasePlasma = ")) {
				overwrittenForContracts = true
			}
		}
		if exempt && !overwrittenForContracts {
			r.viol("K10-uncovered-field-disposition", "vm.(*VM).applyBlock", "BasePlasma/TotalPlasma of contract blocks", "for blocks of embedded addresses enoughPlasma returns before overwriting BasePlasma/TotalPlasma, the regenerated block is compared only through ChangesHash and Hash (which do not cover them), and packBlock wraps the delivered block: a delivered contract receive with arbitrary BasePlasma/TotalPlasma (also in its descendants) is accepted and stored as delivered", why, file, line)
		} else {
			r.pass("K10-uncovered-field-disposition", "vm.(*VM).applyBlock", "BasePlasma/TotalPlasma of contract blocks", "", why, file, line)
		}
	}
	// user blocks: ChangesHash is neither recomputed nor compared
	if fn := r.fn("vm.(*Supervisor).packBlock"); fn != nil {
		file, line := r.P.FnPos(fn)
		compared := false
		for _, name := range []string{"vm.(*Supervisor).packBlock", "vm.(*VM).applySend", "vm.(*VM).applyReceive", "verifier.(*accountBlockTransactionVerifier).hash", "verifier.(*accountBlockTransactionVerifier).all"} {
			if f := r.P.Fn(name); f != nil {
				for _, g := range r.P.Info(f).guards {
					if g.Reject != "" && strings.Contains(g.RejCond.String(), "ChangesHash") {
						compared = true
					}
				}
			}
		}
		// the only assignment of ChangesHash in packBlock is on the signing (generation) path
		signOnly := true
		for _, e := range r.P.Effects(fn) {
			if e.Kind == "store" && strings.HasPrefix(e.Canon, "store a1.ChangesHash = ") {
				if !blockCtxHas(r, fn, e.Instr.Block(), "ne(a2,nil)") {
					signOnly = false
				}
			}
		}
		if !compared && signOnly {
			r.viol("K10-uncovered-field-disposition", "vm.(*Supervisor).packBlock", "ChangesHash of user blocks", "for user send/receive blocks ChangesHash is outside the hash pre-image, is serialised, and is neither recomputed nor compared by the receiver (packBlock sets it only when signing): a signed block and a copy with a different ChangesHash are both accepted, have the same hash and different stored bytes", why, file, line)
		} else {
			r.pass("K10-uncovered-field-disposition", "vm.(*Supervisor).packBlock", "ChangesHash of user blocks", "", why, file, line)
		}
	}
	// ---- Momentum
	mt := r.namedType("chain/nom", "Momentum")
	mh := r.fn("chain/nom.(*Momentum).ComputeHash")
	if mt != nil && mh != nil {
		covered := r.P.fieldsRead(mh, mt, 2, map[*ssa.Function]bool{})
		file, line := r.P.FnPos(mh)
		disp := map[string]string{
			"Hash":      "compared with ComputeHash() by momentumTransactionVerifier.hash (C05 row)",
			"PublicKey": "the producer derived from it must be the elected pillar (C05 rows)",
			"Signature": "verified over Hash (deterministic Ed25519; key holder exception)",
			"producer":  "unexported cache, rlp:\"-\", not in Proto",
			"Timestamp": "cache of TimestampUnix, json:\"-\" rlp:\"-\", not in Proto",
		}
		for _, f := range setDiff(toSet(structFields(mt)), covered) {
			if d, ok := disp[f]; ok {
				r.pass("K10-preimage-coverage", "chain/nom.(*Momentum).ComputeHash", "uncovered field "+f+" has a disposition", d, why, file, line)
			} else {
				r.viol("K10-preimage-coverage", "chain/nom.(*Momentum).ComputeHash", "uncovered field "+f+" has a disposition", "field Momentum."+f+" is not read by ComputeHash and has no recorded disposition", why, file, line)
			}
		}
		for _, f := range []string{"Version", "ChainIdentifier", "PreviousHash", "Height", "TimestampUnix", "Data", "Content", "ChangesHash"} {
			if covered[f] {
				r.pass("K10-preimage-coverage", "chain/nom.(*Momentum).ComputeHash", "covers "+f, "", "the hash commits to this field", file, line)
			} else {
				r.viol("K10-preimage-coverage", "chain/nom.(*Momentum).ComputeHash", "covers "+f, "ComputeHash no longer reads Momentum."+f, "the hash commits to this field", file, line)
			}
		}
		r.Has("chain/nom.(*Momentum).EnsureCache", "store recv.Timestamp = time.Unix(conv:int64(recv.TimestampUnix),0)", "the cached time is derived from the hashed TimestampUnix")
	}
}

func blockCtxHas(r *Run, fn *ssa.Function, b *ssa.BasicBlock, cond string) bool {
	for _, c := range r.blockCtx(fn, b) {
		if c.String() == cond {
			return true
		}
	}
	return false
}

// codecs: encoder and decoder of one representation mention exactly the serialisable fields.
func codecs(r *Run) {
	why := "a field the encoder writes and the decoder drops (or vice versa) changes a block across a wire/storage round trip"
	check := func(typ string, skip []string, enc, dec string) {
		nt := r.namedType("chain/nom", typ)
		ef, df := r.fn(enc), r.fn(dec)
		if nt == nil || ef == nil || df == nil {
			return
		}
		ser := toSet(structFields(nt))
		for _, s := range skip {
			delete(ser, s)
		}
		got := r.P.fieldsRead(ef, nt, 0, map[*ssa.Function]bool{})
		file, line := r.P.FnPos(ef)
		if m, x := setDiff(ser, got), setDiff(got, ser); len(m) > 0 || len(x) > 0 {
			r.viol("K10-codec-fields", enc, "encodes every serialisable field of "+typ, fmt.Sprintf("%s does not encode %v / encodes non-serialisable %v", enc, m, x), why, file, line)
		} else {
			r.pass("K10-codec-fields", enc, "encodes every serialisable field of "+typ, fmt.Sprintf("%d fields", len(ser)), why, file, line)
		}
		gotD := r.P.fieldsStored(df, nt)
		file, line = r.P.FnPos(df)
		if m := setDiff(ser, gotD); len(m) > 0 {
			r.viol("K10-codec-fields", dec, "decodes every serialisable field of "+typ, fmt.Sprintf("%s does not restore %v", dec, m), why, file, line)
		} else {
			r.pass("K10-codec-fields", dec, "decodes every serialisable field of "+typ, fmt.Sprintf("%d fields", len(ser)), why, file, line)
		}
	}
	check("AccountBlock", []string{"producer"}, "chain/nom.(*AccountBlock).Proto", "chain/nom.DeProtoAccountBlock")
	check("AccountBlock", []string{"producer"}, "chain/nom.(*AccountBlock).ToNomMarshalJson", "chain/nom.(*AccountBlockMarshal).FromNomMarshalJson")
	check("Momentum", []string{"producer", "Timestamp"}, "chain/nom.(*Momentum).Proto", "chain/nom.DeProtoMomentum")
	r.NoMakeThenAppend([]string{"chain/nom.(*AccountBlock).Proto", "chain/nom.DeProtoAccountBlock", "chain/nom.(*AccountBlock).Copy", "chain/nom.DeProtoMomentumContent", "chain/nom.(*MomentumContent).Proto"}, "a pre-sized slice that is appended to doubles its length with nil entries")
	r.Has("chain/nom.DeProtoMomentum", "new(nom.Momentum).EnsureCache()", "caches are rebuilt from the decoded (hashed) fields")
}

func runC13(r *Run) {
	descendantHashBinding(r)
	preimage(r)
	codecs(r)
	canonicalCallData(r)
	r.ArgIs("vm.(*VM).applySend", ".ValidateSendBlock", 0, []string{"a0"}, "the validator canonicalises the very block that is then debited, hashed and stored — not a copy")
	r.Guards([]row{{F: "vm.(*VM).applySend", C: "ne(embedded.GetEmbeddedMethod(recv.context,a0.ToAddress,a0.Data)#0.ValidateSendBlock(a0),nil) @ ne(constants.ErrNotContractAddress,embedded.GetEmbeddedMethod(recv.context,a0.ToAddress,a0.Data)#1)", Pre: []string{".SubBalance"}, Why: "every contract-addressed send is validated (and canonicalised) before the debit"}})
	r.Order("vm.(*Supervisor).applyBlock", "vm.(*VM).applyBlock", "vm.(*Supervisor).packBlock", "the hash is verified (in packBlock) after the validator canonicalised the data, i.e. over the canonical form")
	r.Exhaust = true
}

// descendantHashBinding: the hash of a contract-receive covers only the *claimed* Hash fields of its
// descendant blocks, so the content of every descendant must itself be hash-checked before the
// transaction is accepted (shared by C13, C03, C01). D21 was the absence of this check.
func descendantHashBinding(r *Run) {
	r.Alias("$desc", "recv.transaction.Block.DescendantBlocks[iter]")
	r.Guard("verifier.(*accountBlockTransactionVerifier).descendantBlocks", r.X("ne($desc.ComputeHash(),$desc.Hash)"),
		"a descendant block is stored and later received by its recipient with the content delivered; its Amount, ToAddress, TokenStandard and Data are bound to the parent only through its own recomputed hash")
}
