package main

// C05 — momentums only from the elected pillar; deterministic schedule.

var c05Why = map[string]string{
	"verifier.(*rawMomentumVerifier).all":                   "each raw momentum check aborts acceptance when it fails",
	"verifier.(*rawMomentumVerifier).chainIdentifier":       "the momentum belongs to this chain",
	"verifier.(*rawMomentumVerifier).content":               "content is bounded, matches the prefetched blocks one to one, and per address every block extends the previous one",
	"verifier.(*rawMomentumVerifier).data":                  "momentum data must be empty",
	"verifier.(*rawMomentumVerifier).previous":              "the momentum directly extends the view it is verified against (its stated predecessor)",
	"verifier.(*rawMomentumVerifier).timestamp":             "timestamp present, not in the future, strictly later than the predecessor's",
	"verifier.(*rawMomentumVerifier).version":               "version must be exactly 1",
	"verifier.(*momentumTransactionVerifier).all":           "changes hash, hash, signature and producer checks abort acceptance when they fail",
	"verifier.(*momentumTransactionVerifier).changesHash":   "the momentum commits to the state change it causes",
	"verifier.(*momentumTransactionVerifier).hash":          "the hash commits to the content",
	"verifier.(*momentumTransactionVerifier).producer":      "the signer must be the pillar elected for the slot of the timestamp",
	"verifier.(*momentumTransactionVerifier).signature":     "signed over its hash by the stated key",
	"verifier.(*momentumVerifier).Momentum":                 "context lookup failure rejects",
	"verifier.(*momentumVerifier).getContext":               "not genesis, previous stated and known",
	"consensus.(*consensus).VerifyMomentumProducer":         "election failure rejects",
	"consensus.(*consensus).GetMomentumProducer":            "no plan for the timestamp ⇒ error",
	"consensus.(*electionManager).generateProducers":        "failures reject rather than yield a partial schedule",
	"vm.(*Supervisor).ApplyMomentum":                        "acceptance = verify, apply, pack+verify",
	"vm.(*Supervisor).packMomentum":                         "the finished transaction is verified unless it is the genesis",
}

func init() {
	register(&propDef{
		ID: "C05",
		Explain: "Structural necessary conditions: (1) Supervisor.ApplyMomentum/GenerateMomentum succeed only through verifier.Momentum (all six raw checks wired) → applyMomentum → packMomentum → verifier.MomentumTransaction (four checks wired) on the non-genesis edge, under a recovering defer; " +
			"(2) each promised rejection is present as a normalised guard: chain id, version, timestamp (zero / future / not strictly later), previous, empty data, content bound and per-address chaining, changes hash = PatchHash(changes), hash = ComputeHash(), signature over Hash.Bytes() with the stated key, producer = GetMomentumProducer(timestamp) with Producer() derived from the verified key; " +
			"(3) schedule determinism: the ELECTION region has no clock/unseeded randomness/goroutines; every rand source is seeded from findSeed(ctx)=int64(proof height) (+1); the weight comparators are lexicographic (Weight desc, Name asc); generateProducers yields nil unless exactly NodeCount producers; the election cache is keyed by the proof momentum's hash on both read and write; the ElectionData codec writes and reads the same fields and never appends to a pre-sized slice; " +
			"(4) the commit layer's parent check (who extends the node's frontier) is C07's obligation and is referenced there.",
		NotDec: "exactly one active registered pillar per slot for all delegation configurations; equality of cold/cached/post-restart schedules on values; Ed25519 soundness.",
		Run:    runC05,
		Controls: []control{
			{Name: "timestamp-not-strict", File: "verifier/momentum.go", Old: "if previous.TimestampUnix >= rmv.momentum.TimestampUnix {", New: "if previous.TimestampUnix > rmv.momentum.TimestampUnix {", ExpectKeySub: "TimestampUnix"},
			{Name: "producer-unwired", File: "verifier/momentum.go", Old: "\tif err := mv.producer(mv.transaction); err != nil {\n\t\treturn err\n\t}\n", New: "\t_ = mv.producer\n", ExpectKeySub: "producer"},
			{Name: "sig-over-changeshash", File: "verifier/momentum.go", Old: "wallet.VerifySignature(momentum.PublicKey, momentum.Hash.Bytes(), momentum.Signature)", New: "wallet.VerifySignature(momentum.PublicKey, momentum.ChangesHash.Bytes(), momentum.Signature)", ExpectKeySub: "VerifySignature"},
			{Name: "unseeded-shuffle", File: "consensus/election_algorithm.go", Old: "\trandom := rand.New(rand.NewSource(ea.findSeed(context)))\n\tperm := random.Perm(len(producers))\n", New: "\tperm := rand.Perm(len(producers))\n", ExpectKeySub: "rand.Perm"},
			{Name: "tie-break-dropped", File: "common/types/pillar_delegation.go", Old: "func (a SortPDByWeight) Less(i, j int) bool {\n\tr := a[j].Weight.Cmp(a[i].Weight)\n\tif r == 0 {\n\t\treturn a[i].Name < a[j].Name\n\t} else {\n\t\treturn r < 0\n\t}\n}", New: "func (a SortPDByWeight) Less(i, j int) bool {\n\treturn a[j].Weight.Cmp(a[i].Weight) < 0\n}", ExpectKeySub: "SortPDByWeight"},
			{Name: "cache-by-height", File: "consensus/election.go", Old: "cached, err := em.db.GetElectionResultByHash(hashH.Hash)", New: "cached, err := em.db.GetElectionResultByHash(types.NewHash(common.Uint64ToBytes(hashH.Height)))", ExpectKeySub: "GetElectionResultByHash"},
			{Name: "presized-append", File: "consensus/storage/election_data.go", Old: "d.Producers = make([]types.Address, 0, len(pb.Producers))", New: "d.Producers = make([]types.Address, len(pb.Producers))", ExpectKeySub: "make-then-append"},
			{Name: "clock-in-election", File: "consensus/election.go", Old: "\tproofTime := em.genProofTime(tick)\n\tproofBlock, err := getMomentumBeforeTime(em.chain, proofTime)\n\tif err != nil {\n\t\tem.log.Error(\"GetMomentumBeforeTime failed\", \"reason\", err)\n\t\treturn nil, err\n\t}\n\n\tem.log.Debug(", New: "\tproofTime := em.genProofTime(tick)\n\tif proofTime.After(time.Now()) {\n\t\tproofTime = time.Now()\n\t}\n\tproofBlock, err := getMomentumBeforeTime(em.chain, proofTime)\n\tif err != nil {\n\t\tem.log.Error(\"GetMomentumBeforeTime failed\", \"reason\", err)\n\t\treturn nil, err\n\t}\n\n\tem.log.Debug(", ExpectKeySub: "clock:time.Now"},
			{Name: "genesis-flag-skips-verify", File: "vm/supervisor.go", Old: "\ttransaction, err := s.packMomentum(context, momentum, nil, false)\n\tif err != nil {\n\t\treturn nil, err\n\t}\n\treturn transaction, nil\n}\n\nfunc (s *Supervisor) GenerateFromTemplate", New: "\ttransaction, err := s.packMomentum(context, momentum, nil, momentum.Height == 1)\n\tif err != nil {\n\t\treturn nil, err\n\t}\n\treturn transaction, nil\n}\n\nfunc (s *Supervisor) GenerateFromTemplate", ExpectKeySub: "packMomentum"},
		},
	})
}

func runC05(r *Run) {
	r.NoSharedBigIntInLoop([]string{"consensus", "common/types.", "chain/momentum."}, "decoded or computed per-element numbers (weights, amounts) must be separate objects")
	r.CacheInventory([]string{"consensus", "consensus/storage", "verifier", "pillar"}, cacheTriage, "an election or a verdict memoised under a key that does not pin the chain it was computed on (a tick, a height) survives a reorganisation below it")
	r.Alias("$m", "recv.momentum")
	r.Alias("$look", "make(map[types.HashHeight]*nom.AccountBlock)")
	r.Alias("$hdr", "$m.Content[iter]")
	rows := []row{
		{F: "verifier.(*rawMomentumVerifier).all", C: "ne(nil,recv.chainIdentifier())"},
		{F: "verifier.(*rawMomentumVerifier).all", C: "ne(nil,recv.version())"},
		{F: "verifier.(*rawMomentumVerifier).all", C: "ne(nil,recv.timestamp())"},
		{F: "verifier.(*rawMomentumVerifier).all", C: "ne(nil,recv.previous())"},
		{F: "verifier.(*rawMomentumVerifier).all", C: "ne(nil,recv.data())"},
		{F: "verifier.(*rawMomentumVerifier).all", C: "ne(nil,recv.content())"},
		{F: "verifier.(*rawMomentumVerifier).chainIdentifier", C: "eq(0,$m.ChainIdentifier)"},
		{F: "verifier.(*rawMomentumVerifier).chainIdentifier", C: "ne($m.ChainIdentifier,recv.momentumStore.ChainIdentifier())"},
		{F: "verifier.(*rawMomentumVerifier).content", C: "lt(chain.MaxAccountBlocksInMomentum,len($m.Content))"},
		{F: "verifier.(*rawMomentumVerifier).content", C: "ne(len($look),len($m.Content))"},
		{F: "verifier.(*rawMomentumVerifier).data", C: "ne(0,len($m.Data))"},
		{F: "verifier.(*rawMomentumVerifier).previous", C: "eq(1,$m.Height)"},
		{F: "verifier.(*rawMomentumVerifier).previous", C: "T($m.PreviousHash.IsZero())"},
		{F: "verifier.(*rawMomentumVerifier).previous", C: "ne(nil,recv.momentumStore.GetFrontierMomentum()#1)"},
		{F: "verifier.(*rawMomentumVerifier).previous", C: "ne($m.Previous(),recv.momentumStore.GetFrontierMomentum()#0.Identifier())"},
		{F: "verifier.(*rawMomentumVerifier).timestamp", C: "eq(0,$m.Timestamp.Unix())"},
		{F: "verifier.(*rawMomentumVerifier).timestamp", C: "T($m.Timestamp.After(time.Now().Add(10000000000)))"},
		{F: "verifier.(*rawMomentumVerifier).timestamp", C: "ne(nil,recv.momentumStore.GetFrontierMomentum()#1)"},
		{F: "verifier.(*rawMomentumVerifier).timestamp", C: "le($m.TimestampUnix,recv.momentumStore.GetFrontierMomentum()#0.TimestampUnix)"},
		{F: "verifier.(*rawMomentumVerifier).version", C: "eq(0,$m.Version)"},
		{F: "verifier.(*rawMomentumVerifier).version", C: "ne(1,$m.Version)"},
		{F: "verifier.(*momentumTransactionVerifier).all", C: "ne(nil,recv.changesHash(recv.transaction))"},
		{F: "verifier.(*momentumTransactionVerifier).all", C: "ne(nil,recv.hash(recv.transaction))"},
		{F: "verifier.(*momentumTransactionVerifier).all", C: "ne(nil,recv.signature(recv.transaction))"},
		{F: "verifier.(*momentumTransactionVerifier).all", C: "ne(nil,recv.producer(recv.transaction))"},
		{F: "verifier.(*momentumTransactionVerifier).changesHash", C: "ne(a0.Momentum.ChangesHash,db.PatchHash(a0.Changes))"},
		{F: "verifier.(*momentumTransactionVerifier).hash", C: "ne(a0.Momentum.ComputeHash(),a0.Momentum.Hash)"},
		{F: "verifier.(*momentumTransactionVerifier).producer", C: "ne(nil,recv.consensus.VerifyMomentumProducer(a0.Momentum)#1)"},
		{F: "verifier.(*momentumTransactionVerifier).producer", C: "F(recv.consensus.VerifyMomentumProducer(a0.Momentum)#0)"},
		{F: "verifier.(*momentumTransactionVerifier).signature", C: "eq(0,len(a0.Momentum.Signature))"},
		{F: "verifier.(*momentumTransactionVerifier).signature", C: "eq(0,len(a0.Momentum.PublicKey))"},
		{F: "verifier.(*momentumTransactionVerifier).signature", C: "ne(nil,wallet.VerifySignature(a0.Momentum.PublicKey,a0.Momentum.Hash.Bytes(),a0.Momentum.Signature)#1)"},
		{F: "verifier.(*momentumTransactionVerifier).signature", C: "F(wallet.VerifySignature(a0.Momentum.PublicKey,a0.Momentum.Hash.Bytes(),a0.Momentum.Signature)#0)"},
		{F: "verifier.(*momentumVerifier).Momentum", C: "ne(nil,recv.getContext(a0.Momentum)#1)"},
		{F: "verifier.(*momentumVerifier).getContext", C: "eq(1,a0.Height)"},
		{F: "verifier.(*momentumVerifier).getContext", C: "T(a0.PreviousHash.IsZero())"},
		{F: "verifier.(*momentumVerifier).getContext", C: "eq(nil,recv.chain.GetMomentumStore(a0.Previous()))"},
		{F: "consensus.(*consensus).VerifyMomentumProducer", C: "ne(nil,recv.GetMomentumProducer(a0.Timestamp)#1)"},
		{F: "consensus.(*consensus).GetMomentumProducer", C: "ne(nil,recv.electionManager.ElectionByTime(a0)#1)"},
		{F: "consensus.(*electionManager).generateProducers", C: "ne(nil,recv.db.GetElectionResultByHash(a0.Hash)#1)"},
		{F: "vm.(*Supervisor).ApplyMomentum", C: "ne(nil,recv.verifier.Momentum(a0))", Pre: []string{"vm.(*MomentumVM).applyMomentum", "vm.(*Supervisor).packMomentum"}},
		{F: "vm.(*Supervisor).ApplyMomentum", C: "ne(nil,vm.NewMomentumVM(recv.newMomentumContext(a0.Momentum)).applyMomentum(recv.chain,a0.Momentum))", Pre: []string{"vm.(*Supervisor).packMomentum"}},
		{F: "vm.(*Supervisor).ApplyMomentum", C: "ne(nil,recv.packMomentum(recv.newMomentumContext(a0.Momentum),a0.Momentum,nil,false)#1)"},
		{F: "vm.(*Supervisor).packMomentum", C: "ne(a0.Changes()#1,nil)"},
		{F: "vm.(*Supervisor).packMomentum", C: "ne(nil,recv.verifier.MomentumTransaction(new(nom.MomentumTransaction))) @ F(a3)"},
	}
	for i := range rows {
		rows[i].Why = c05Why[rows[i].F]
	}
	r.Guards(rows)
	// the loop-inner content guards (contexts include the loop's inner branches)
	ct := "verifier.(*rawMomentumVerifier).content"
	r.GuardLike(ct, "ne(nil,recv.momentumStore.GetFrontierAccountBlock($hdr.Address)#1)", c05Why[ct])
	r.GuardLike(ct, "F($look[$hdr.Identifier()]#1)", c05Why[ct])
	r.GuardLike(ct, "ne($look[$hdr.Identifier()]#0.Previous(),", c05Why[ct])
	r.Has(ct, "store $look[recv.accountBlocks[iter].Identifier()] = recv.accountBlocks[iter]", "prefetched blocks are indexed by their own identifier")

	r.AllWired("verifier", "rawMomentumVerifier", "all", "a check that exists but is not wired never runs")
	r.AllWired("verifier", "momentumTransactionVerifier", "all", "a check that exists but is not wired never runs")
	r.MustPass("vm.(*Supervisor).ApplyMomentum", ".Momentum", "no momentum is applied without the raw checks")
	r.MustPass("vm.(*Supervisor).ApplyMomentum", "vm.(*MomentumVM).applyMomentum", "the transaction is the result of applying the content")
	r.MustPass("vm.(*Supervisor).ApplyMomentum", "vm.(*Supervisor).packMomentum", "the transaction handed out is the verified one")
	r.MustPass("vm.(*Supervisor).GenerateMomentum", ".Momentum", "own momentums pass the same raw checks")
	r.MustPass("vm.(*Supervisor).GenerateMomentum", "vm.(*Supervisor).packMomentum", "own momentums pass the transaction checks")
	r.MustPassUnless("vm.(*Supervisor).packMomentum", ".MomentumTransaction", "T(a3)", "every non-genesis momentum transaction is verified (changes hash, hash, signature, producer)")
	r.ArgIs("vm.(*Supervisor).ApplyMomentum", "vm.(*Supervisor).packMomentum", 3, []string{"false"}, "a delivered momentum is never packed as genesis (which would skip verification)")
	r.ArgIs("vm.(*Supervisor).GenerateMomentum", "vm.(*Supervisor).packMomentum", 3, []string{"false"}, "a produced momentum is never packed as genesis")
	r.DefersRecover("vm.(*Supervisor).ApplyMomentum", "content() dereferences a possibly-nil block before its ok test: contained by the recover, so a malformed momentum rejects instead of crashing")
	r.DefersRecover("vm.(*Supervisor).GenerateMomentum", "same containment on the producing side")
	r.Has("verifier.(*momentumVerifier).Momentum", "store new(verifier.rawMomentumVerifier).momentum = a0.Momentum", "the verified momentum is the submitted one")
	r.Has("verifier.(*momentumVerifier).Momentum", "store new(verifier.rawMomentumVerifier).momentumStore = recv.getContext(a0.Momentum)#0", "checks run against the predecessor's view")
	r.Has("verifier.(*momentumVerifier).Momentum", "store new(verifier.rawMomentumVerifier).accountBlocks = a0.AccountBlocks", "content is checked against the delivered blocks")
	r.Has("verifier.(*momentumVerifier).MomentumTransaction", "store new(verifier.momentumTransactionVerifier).transaction = a0", "the verified transaction is the submitted one")
	r.Has("vm.(*Supervisor).packMomentum", "store new(nom.MomentumTransaction).Momentum = a1", "transaction wraps the verified momentum")
	r.Has("vm.(*Supervisor).packMomentum", "store new(nom.MomentumTransaction).Changes = a0.Changes()#0", "transaction carries the changes of the context the content was applied to")
	r.Has("vm.(*Supervisor).newMomentumContext", "recv.chain.GetMomentumStore(a0.Previous())", "content is applied on the stated predecessor's view")

	// producer identity
	r.Returns("consensus.(*consensus).VerifyMomentumProducer", []string{"false, recv.GetMomentumProducer(a0.Timestamp)#1", "true, nil", "false, nil"}, "verdict forms")
	r.Branch("consensus.(*consensus).VerifyMomentumProducer", "eq(a0.Producer(),recv.GetMomentumProducer(a0.Timestamp)#0)", "the compared identity is the momentum's producer (derived from its verified public key) against the elected one for its own timestamp")
	r.Branch("consensus.(*consensus).GetMomentumProducer", "eq(a0,recv.electionManager.ElectionByTime(a0)#0.Producers[iter].StartTime)", "the producer is the plan entry whose slot starts exactly at the timestamp")
	r.Returns("consensus.(*consensus).GetMomentumProducer", []string{"nil, recv.electionManager.ElectionByTime(a0)#1", "nil, errors.Errorf(…)", "recv.electionManager.ElectionByTime(a0)#0.Producers[iter].Producer, nil"}, "result forms")
	r.Returns("chain/nom.(*Momentum).Producer", []string{"recv.producer"}, "Producer() returns the cached address")
	r.Has("chain/nom.(*Momentum).Producer", "store recv.producer = types.PubKeyToAddress(recv.PublicKey)", "the cached producer is derived from the public key the signature was verified with")
	r.Branch("chain/nom.(*Momentum).Producer", "eq(nil,recv.producer)", "computed when not cached")

	// schedule determinism
	reg := r.Region("ELECTION", regionEntries["ELECTION"], false)
	r.Determinism("ELECTION", reg, ccrTriage, "the schedule must be a pure function of the ledger as of the proof momentum")
	r.RandSeeds(reg, []string{"recv.findSeed(a1)", "recv.findSeed(a2)", "(recv.findSeed(a2)+1)"}, "every random source of the election is seeded from the proof momentum's height")
	r.Returns("consensus.(*electionAlgorithm).findSeed", []string{"conv:int64(a0.hashH.Height)"}, "seed = proof momentum height")
	for t, e := range map[string]string{"SortPDByWeight": "", "SortPDDByWeight": ".PillarDelegation"} {
		f := "common/types.(" + t + ").Less"
		r.Branch(f, "eq(recv[a0]"+e+".Weight,recv[a1]"+e+".Weight)", "ties on weight are detected")
		r.Returns(f, []string{"(recv[a0]" + e + ".Name<recv[a1]" + e + ".Name)", "(recv[a1]" + e + ".Weight.Cmp(recv[a0]" + e + ".Weight)<0)"}, "total order (Weight desc, Name asc): sort.Sort is unstable, so without the tie-break equal weights are ordered by input order")
	}
	r.Has("chain/momentum.(*momentumStore).ComputePillarDelegations", "sort.Sort(iter(make([]*types.PillarDelegationDetail,0,len(recv.GetActivePillars()#0))))", "the delegation list handed to the election is sorted by the total order")
	r.Branch("consensus.generateProducers", "ne(conv:int(a0.Consensus.NodeCount),len(a2))", "a schedule has exactly NodeCount slots or none")
	r.Has("consensus.generateProducers", "store new(consensus.ProducerEvent).Producer = a2[iter]", "slot i belongs to producer i of the elected list")
	gp := "consensus.(*electionManager).generateProducers"
	r.Has(gp, "recv.db.GetElectionResultByHash(a0.Hash)", "cache read is content-addressed by the proof momentum's hash: a reorg cannot alias entries")
	r.HasPrefix(gp, "recv.db.StoreElectionResultByHash(a0.Hash,", "cache write uses the same content-addressed key")
	r.Has(gp, "recv.chain.GetMomentumStore(a0.Identifier()).ComputePillarDelegations()", "delegations are read from the proof momentum's own view")
	r.HasPrefix(gp, "consensus.NewAlgorithmContext(types.ToPillarDelegation(recv.chain.GetMomentumStore(a0.Identifier()).ComputePillarDelegations()#0),", "the algorithm sees exactly those delegations")
	r.Has("consensus/storage.(*DB).GetElectionResultByHash", "recv.db.Get(storage.CreateElectionResultKey(a0))", "reader key")
	r.HasPrefix("consensus/storage.(*DB).StoreElectionResultByHash", "recv.db.Put(storage.CreateElectionResultKey(a0),", "writer key = reader key")
	r.Has("consensus/storage.(*DB).GetElectionResultByHash", "recv.electionCache.Get(a0)", "LRU keyed by the same hash")

	// codec agreement of the persisted election data
	electionCodecRules(r)
}

// electionCodecRules: what is persisted for an election is the computed election, element for element
// (shared by C05, C02 — a restarted or cache-cold node reads the stored record — and C06).
func electionCodecRules(r *Run) {
	um := "consensus/storage.(*ElectionData).Unmarshal"
	r.NoMakeThenAppend([]string{um, "consensus/storage.(*ElectionData).Marshal", "consensus/storage.(*Point).Marshal", "consensus/storage.(*Point).Unmarshal", "common/types.ToPillarDelegation", "consensus.(*electionManager).generateProducers"}, "a slice created with a non-zero length and then appended to doubles its length with zero entries (the decoded schedule would not have NodeCount producers)")
	r.Has(um, "store new(types.PillarDelegation).Weight = big.NewInt(0).SetBytes(new(storage.ElectionDataProto).Delegations[iter].Weight)", "weight round-trips")
	r.Has(um, "store new(types.PillarDelegation).Name = new(storage.ElectionDataProto).Delegations[iter].Name", "name round-trips")
	r.Has(um, "store new(types.PillarDelegation).Producing = types.BytesToAddress(new(storage.ElectionDataProto).Delegations[iter].ProducingAddress)#0", "producing address round-trips")
	mm := "consensus/storage.(*ElectionData).Marshal"
	r.Has(mm, "store new(storage.PillarDelegationProto).Name = recv.Delegations[iter].Name", "name written")
	r.Has(mm, "store new(storage.PillarDelegationProto).ProducingAddress = recv.Delegations[iter].Producing.Bytes()", "producing address written")
	r.Has(mm, "store new(storage.PillarDelegationProto).Weight = recv.Delegations[iter].Weight.Bytes()", "weight written")
	r.Has(mm, "store new(storage.ElectionDataProto).Producers = append(new(storage.ElectionDataProto).Producers,list(recv.Producers[iter].Bytes()))", "each producer slot is written from its own element, by value (Bytes() copies; a slice of the loop variable would alias one slot into all)")
	r.LoopBodyStraight(mm, "recv.Delegations", "the stored election must be the computed election: no delegation is left out of the record")
	r.LoopBodyStraight(mm, "recv.Producers", "no producer slot is left out of the record")
	r.LoopBodyStraight(um, "new(storage.ElectionDataProto).Delegations", "every stored delegation is read back")
	r.LoopBodyStraight(um, "new(storage.ElectionDataProto).Producers", "every stored producer slot is read back")
}
