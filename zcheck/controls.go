package main

import (
	"bytes"
	"fmt"
	"os"
	"os/exec"
	"path/filepath"
	"strings"
	"sync"
)

// controlOverlay builds the in-memory replacement for one positive control: the anchored construct
// is mutated in memory (packages.Config.Overlay); nothing is written to the repository.
// seedOverlay applies a kept seeded change (/verif/seeded/<dir>/patch.diff) to temporary copies of the
// files it touches and returns them as an in-memory overlay. Nothing is written to the repository.
func seedOverlay(dir string) (map[string][]byte, error) {
	patch := filepath.Join(*flagVerif, "seeded", dir, "patch.diff")
	pb, err := os.ReadFile(patch)
	if err != nil {
		return nil, err
	}
	tmp, err := os.MkdirTemp("", "zcheck-seed-")
	if err != nil {
		return nil, err
	}
	defer os.RemoveAll(tmp)
	var files []string
	for _, l := range strings.Split(string(pb), "\n") {
		if strings.HasPrefix(l, "+++ b/") {
			files = append(files, strings.TrimSpace(strings.TrimPrefix(l, "+++ b/")))
		}
	}
	if len(files) == 0 {
		return nil, fmt.Errorf("CONTROL-UNSEEDABLE: %s: no files in patch", dir)
	}
	for _, f := range files {
		dst := filepath.Join(tmp, f)
		if err := os.MkdirAll(filepath.Dir(dst), 0o755); err != nil {
			return nil, err
		}
		if b, err := os.ReadFile(filepath.Join(*flagRepo, f)); err == nil {
			if err := os.WriteFile(dst, b, 0o644); err != nil {
				return nil, err
			}
		}
	}
	cmd := exec.Command("patch", "-p1", "-s", "--no-backup-if-mismatch", "-F0", "-d", tmp, "-i", patch)
	if out, err := cmd.CombinedOutput(); err != nil {
		return nil, fmt.Errorf("CONTROL-UNSEEDABLE: %s: the seeded change no longer applies to this tree (%s)", dir, firstLines(string(out), 2))
	}
	ov := map[string][]byte{}
	for _, f := range files {
		b, err := os.ReadFile(filepath.Join(tmp, f))
		if err != nil {
			return nil, err
		}
		ov[filepath.Join(*flagRepo, f)] = b
	}
	return ov, nil
}

func controlOverlay(def *propDef, name string) (map[string][]byte, error) {
	if strings.HasPrefix(name, "seed:") {
		return seedOverlay(strings.TrimPrefix(name, "seed:"))
	}
	for _, c := range def.Controls {
		if c.Name != name {
			continue
		}
		abs := filepath.Join(*flagRepo, c.File)
		b, err := os.ReadFile(abs)
		if err != nil {
			return nil, err
		}
		if bytes.Count(b, []byte(c.Old)) != 1 {
			return nil, fmt.Errorf("CONTROL-UNSEEDABLE: %s: fragment occurs %d times in %s", name, bytes.Count(b, []byte(c.Old)), c.File)
		}
		nb := bytes.Replace(b, []byte(c.Old), []byte(c.New), 1)
		return map[string][]byte{abs: nb}, nil
	}
	return nil, fmt.Errorf("no such control %s", name)
}

// thoroughExtras: (a) positive controls — each seeded mutant must make its rule fire;
// (b) other build configurations — anchor files must exist / the rules are re-run under them.
func thoroughExtras(r *Run, def *propDef) {
	self, err := os.Executable()
	if err != nil {
		r.viol("analysis-failed", "", "controls", err.Error(), "", "", 0)
		return
	}
	type res struct {
		c   control
		out string
		err error
	}
	ctrls := append([]control(nil), def.Controls...)
	// every kept seeded change of this property is a positive control too: analysed as an in-memory
	// variant, it must make some rule of this property fire
	if ents, err := os.ReadDir(filepath.Join(*flagVerif, "seeded")); err == nil {
		for _, e := range ents {
			if e.IsDir() && strings.HasPrefix(e.Name(), def.ID+"-") {
				ctrls = append(ctrls, control{Name: "seed:" + e.Name(), File: "seeded/" + e.Name() + "/patch.diff", Old: "(unchanged tree)", New: "(seeded change applied)", ExpectKeySub: ""})
			}
		}
	}
	results := make([]res, len(ctrls))
	sem := make(chan struct{}, 6)
	var wg sync.WaitGroup
	for i, c := range ctrls {
		wg.Add(1)
		go func(i int, c control) {
			defer wg.Done()
			sem <- struct{}{}
			defer func() { <-sem }()
			cmd := exec.Command(self, "-repo", *flagRepo, "-verif", *flagVerif, "-property", def.ID, "-control", c.Name)
			out, err := cmd.CombinedOutput()
			results[i] = res{c, string(out), err}
		}(i, c)
	}
	wg.Wait()
	for _, rs := range results {
		c := rs.c
		switch {
		case strings.Contains(rs.out, "CONTROL-UNSEEDABLE"):
			r.Notes = append(r.Notes, "control "+c.Name+" skipped: the seeded construct is not present in this tree in its reference form")
			r.controls = append(r.controls, controlResult{Name: c.Name, Fired: false, Detail: "skipped (not seedable on this tree)"})
		case rs.err != nil:
			r.viol("vacuous-rule", "", "control:"+c.Name, "positive control could not be run: "+rs.err.Error()+" "+firstLines(rs.out, 3), "", c.File, 0)
		default:
			fired := false
			for _, l := range strings.Split(rs.out, "\n") {
				if strings.HasPrefix(l, "CONTROL-FIRED ") && strings.Contains(l, c.ExpectKeySub) {
					fired = true
				}
			}
			if fired {
				r.pass("positive-control", "", "control:"+c.Name, "seeded mutant ("+c.Old+" → "+c.New+") makes the rule fire", "", c.File, 0)
				r.controls = append(r.controls, controlResult{Name: c.Name, Fired: true})
			} else {
				r.viol("vacuous-rule", "", "control:"+c.Name, "seeded mutant of "+c.File+" ("+c.Old+" → "+c.New+") did not make a rule with key containing "+c.ExpectKeySub+" fire: "+firstLines(rs.out, 4), "", c.File, 0)
				r.controls = append(r.controls, controlResult{Name: c.Name, Fired: false, Detail: firstLines(rs.out, 4)})
			}
		}
	}
	// other build configurations
	// Cross-OS/arch configurations (windows, darwin, 386) cannot be type-checked in this sandbox:
	// they disable cgo and github.com/ethereum/go-ethereum/crypto/secp256k1 then lacks RecoverPubkey.
	// The only files they select differently are rpc/server/ipc_{windows,js}.go (no property anchors).
	for _, bc := range []struct {
		name string
		tags string
		env  []string
	}{
		{"linux/amd64 -tags libznn", "libznn", nil},
	} {
		args := []string{"-repo", *flagRepo, "-verif", *flagVerif, "-property", def.ID, "-altconfig"}
		cmd := exec.Command(self, args...)
		cmd.Env = append(os.Environ(), bc.env...)
		if bc.tags != "" {
			cmd.Args = append(cmd.Args, "-tags", bc.tags)
		}
		out, err := cmd.CombinedOutput()
		if err != nil && !strings.Contains(string(out), "ALTCONFIG-") {
			r.Notes = append(r.Notes, "build configuration "+bc.name+": could not be analysed ("+firstLines(string(out), 2)+")")
			continue
		}
		r.Configs = append(r.Configs, bc.name)
		for _, l := range strings.Split(string(out), "\n") {
			if strings.HasPrefix(l, "ALTCONFIG-VIOLATION ") {
				parts := strings.SplitN(strings.TrimPrefix(l, "ALTCONFIG-VIOLATION "), " :: ", 2)
				d := ""
				if len(parts) > 1 {
					d = parts[1]
				}
				r.viol("alt-config", "", bc.name+"|"+parts[0], "under build configuration "+bc.name+": "+d, "", "", 0)
			}
		}
	}
}

func firstLines(s string, n int) string {
	ls := strings.Split(strings.TrimSpace(s), "\n")
	if len(ls) > n {
		ls = ls[:n]
	}
	return strings.Join(ls, " / ")
}
