package main

import (
	"go/types"
	"sort"

	"golang.org/x/tools/go/ssa"
)

func isTypeOrPtr(t types.Type, nt *types.Named) bool {
	if pt, ok := t.Underlying().(*types.Pointer); ok {
		t = pt.Elem()
	}
	return types.Identical(t, nt)
}

// fieldsRead: names of the fields of nt that fn loads (directly, and through methods of nt it
// calls statically, up to depth).
func (p *Prog) fieldsRead(fn *ssa.Function, nt *types.Named, depth int, seen map[*ssa.Function]bool) map[string]bool {
	out := map[string]bool{}
	if fn == nil || fn.Blocks == nil || seen[fn] {
		return out
	}
	seen[fn] = true
	for _, b := range fn.Blocks {
		for _, in := range b.Instrs {
			switch x := in.(type) {
			case *ssa.FieldAddr:
				if !isTypeOrPtr(x.X.Type(), nt) {
					continue
				}
				// a read iff the address is loaded or passed on (not only stored to)
				read := false
				for _, ref := range *x.Referrers() {
					if st, ok := ref.(*ssa.Store); ok && st.Addr == ssa.Value(x) {
						continue
					}
					read = true
				}
				if read {
					out[fieldName(x.X.Type(), x.Field)] = true
				}
			case *ssa.Field:
				if isTypeOrPtr(x.X.Type(), nt) {
					out[fieldName(x.X.Type(), x.Field)] = true
				}
			case *ssa.Call:
				if depth > 0 {
					if cf := x.Call.StaticCallee(); cf != nil && cf.Signature.Recv() != nil && isTypeOrPtr(cf.Signature.Recv().Type(), nt) {
						for k := range p.fieldsRead(cf, nt, depth-1, seen) {
							out[k] = true
						}
					}
				}
			}
		}
	}
	return out
}

// fieldsStored: names of the fields of nt that fn stores into.
func (p *Prog) fieldsStored(fn *ssa.Function, nt *types.Named) map[string]bool {
	out := map[string]bool{}
	if fn == nil {
		return out
	}
	for _, b := range fn.Blocks {
		for _, in := range b.Instrs {
			if c, ok := in.(*ssa.Call); ok {
				// &x.f handed to a pointer-receiver method (x.f.UnmarshalText(...)) counts as a write
				if cf := c.Call.StaticCallee(); cf != nil && cf.Signature.Recv() != nil && len(c.Call.Args) > 0 {
					if fa, ok := c.Call.Args[0].(*ssa.FieldAddr); ok && isTypeOrPtr(fa.X.Type(), nt) {
						if _, isPtr := cf.Signature.Recv().Type().(*types.Pointer); isPtr {
							out[fieldName(fa.X.Type(), fa.Field)] = true
						}
					}
				}
				continue
			}
			st, ok := in.(*ssa.Store)
			if !ok {
				continue
			}
			if fa, ok := st.Addr.(*ssa.FieldAddr); ok && isTypeOrPtr(fa.X.Type(), nt) {
				out[fieldName(fa.X.Type(), fa.Field)] = true
			}
		}
	}
	return out
}

func structFields(nt *types.Named) []string {
	st, ok := nt.Underlying().(*types.Struct)
	if !ok {
		return nil
	}
	var out []string
	for i := 0; i < st.NumFields(); i++ {
		out = append(out, st.Field(i).Name())
	}
	return out
}

func setDiff(a map[string]bool, b map[string]bool) []string {
	var out []string
	for k := range a {
		if !b[k] {
			out = append(out, k)
		}
	}
	sort.Strings(out)
	return out
}

func toSet(xs []string) map[string]bool {
	m := map[string]bool{}
	for _, x := range xs {
		m[x] = true
	}
	return m
}
