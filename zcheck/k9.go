package main

import (
	"fmt"
	"go/token"
	"go/types"
	"sort"
	"strings"

	"golang.org/x/tools/go/ssa"
)

// Region computes a named region: functions reachable (VTA, or CHA when useCHA) from entries given as
// canonical names (a trailing "*" selects every function with that prefix).
func (r *Run) Region(name string, entries []string, useCHA bool) map[*ssa.Function]*ssa.Function {
	var fns []*ssa.Function
	for _, e := range entries {
		if strings.HasSuffix(e, "*") {
			pre := strings.TrimSuffix(e, "*")
			n := 0
			for _, fnn := range r.P.FuncNames() {
				if strings.HasPrefix(fnn, pre) && !strings.Contains(fnn, "$") && !strings.HasSuffix(fnn, ".init") {
					if f := r.P.Fn(fnn); f != nil && f.Blocks != nil {
						fns = append(fns, f)
						n++
					}
				}
			}
			if n == 0 {
				r.viol("unresolved-anchor", "", "region entry "+e, "no function matches region entry "+e, "", "", 0)
			}
			continue
		}
		if f := r.fn(e); f != nil {
			fns = append(fns, f)
		}
	}
	g := r.P.VTA()
	if useCHA {
		g = r.P.CHA()
	}
	reg := r.P.Reach(g, fns, r.P.ModuleOrSynthetic, nil)
	n := 0
	for f := range reg {
		if r.P.InModule(f) {
			n++
		}
	}
	r.Regions[name] = n
	return reg
}

type lintHit struct {
	Fn   string
	What string
	Sig  string // for map loops: hazard signature of the loop body
	File string
	Line int
}

// determinismInventory scans the region for sources of node-dependence.
func (r *Run) determinismInventory(reg map[*ssa.Function]*ssa.Function) []lintHit {
	var hits []lintHit
	forbiddenCall := func(f *ssa.Function) string {
		if f == nil {
			return ""
		}
		var pkg string
		if f.Pkg != nil {
			pkg = f.Pkg.Pkg.Path()
		} else if o := f.Object(); o != nil && o.Pkg() != nil {
			pkg = o.Pkg().Path()
		}
		name := f.Name()
		switch pkg {
		case "time":
			switch name {
			case "Now", "Since", "Until", "After", "Tick", "NewTimer", "NewTicker", "Sleep", "AfterFunc":
				if f.Signature.Recv() == nil {
					return "clock:time." + name
				}
			}
		case "math/rand", "math/rand/v2":
			if f.Signature.Recv() == nil && name != "New" && name != "NewSource" {
				return "unseeded-random:rand." + name
			}
		case "crypto/rand":
			return "os-random:crypto/rand." + name
		case "os":
			switch name {
			case "Getenv", "LookupEnv", "Hostname", "Getpid", "Environ", "Getwd":
				return "environment:os." + name
			}
		case "runtime":
			switch name {
			case "NumCPU", "NumGoroutine", "GOMAXPROCS":
				return "environment:runtime." + name
			}
		}
		return ""
	}
	for f := range reg {
		name := r.P.FuncName(f)
		if name == "" || f.Blocks == nil {
			continue
		}
		add := func(what string, pos token.Pos) {
			file, line := r.P.Pos(pos)
			if file == "" {
				file, line = r.P.FnPos(f)
			}
			hits = append(hits, lintHit{Fn: name, What: what, File: file, Line: line})
		}
		for _, b := range f.Blocks {
			for _, in := range b.Instrs {
				switch x := in.(type) {
				case *ssa.Go:
					add("goroutine:go statement", x.Pos())
				case *ssa.Select:
					add("schedule:select", x.Pos())
				case *ssa.Send:
					add("schedule:channel send", x.Pos())
				case *ssa.UnOp:
					if x.Op == token.ARROW {
						add("schedule:channel receive", x.Pos())
					}
				case *ssa.BinOp:
					if bt, ok := x.X.Type().Underlying().(*types.Basic); ok && bt.Info()&types.IsFloat != 0 {
						switch x.Op {
						case token.ADD, token.SUB, token.MUL, token.QUO:
							add("float:"+x.Op.String(), x.Pos())
						}
					}
				case *ssa.Convert:
					if tb, ok := x.Type().Underlying().(*types.Basic); ok && tb.Info()&types.IsFloat != 0 {
						if _, isC := x.X.(*ssa.Const); !isC {
							add("float:conversion to "+tb.Name(), x.Pos())
						}
					}
				case *ssa.Range:
					if _, ok := x.X.Type().Underlying().(*types.Map); ok {
						add("map-range:"+r.P.Env(f).of(x.X).String(), x.Pos())
						hits[len(hits)-1].Sig = mapLoopSig(x)
					}
				}
				if ci, ok := in.(ssa.CallInstruction); ok {
					if w := forbiddenCall(ci.Common().StaticCallee()); w != "" {
						add(w, ci.Pos())
					}
				}
			}
		}
	}
	sort.Slice(hits, func(i, j int) bool {
		if hits[i].Fn != hits[j].Fn {
			return hits[i].Fn < hits[j].Fn
		}
		if hits[i].What != hits[j].What {
			return hits[i].What < hits[j].What
		}
		return hits[i].Line < hits[j].Line
	})
	return hits
}

// Determinism: every inventory hit in the region must be triaged in table
// (key: "<function>|<what>" → reason). Untriaged hits are violations. Frozen rows that no longer
// occur are fine (the hazard is gone).
func (r *Run) Determinism(regionName string, reg map[*ssa.Function]*ssa.Function, table map[string]string, why string) {
	hits := r.determinismInventory(reg)
	seen := map[string]bool{}
	for _, h := range hits {
		key := h.Fn + "|" + h.What
		if seen[key+h.Sig] {
			continue
		}
		seen[key+h.Sig] = true
		if reason, ok := table[key]; ok {
			sigPart := reason
			if i := strings.Index(reason, " class"); i > 0 {
				sigPart = reason[:i]
			}
			if h.Sig != "" && !strings.Contains(sigPart, h.Sig) {
				r.viol("K9-determinism", h.Fn, h.What, fmt.Sprintf("the body of the map loop at %s:%d changed its order-sensitivity signature to %s (triaged as: %s): an early exit selects an arbitrary element, an append records iteration order", h.File, h.Line, h.Sig, reason), why, h.File, h.Line)
				continue
			}
			r.pass("K9-determinism", h.Fn, h.What, "triaged: "+reason, why, h.File, h.Line)
			continue
		}
		// closures inherit the triage of their parent when listed with "$*"
		if i := strings.Index(h.Fn, "$"); i > 0 {
			if reason, ok := table[h.Fn[:i]+"$*|"+h.What]; ok {
				r.pass("K9-determinism", h.Fn, h.What, "triaged: "+reason, why, h.File, h.Line)
				continue
			}
		}
		chain := ""
		for f := range reg {
			if r.P.FuncName(f) == h.Fn {
				chain = strings.Join(r.P.Chain(reg, f), " → ")
			}
		}
		r.viol("K9-determinism", h.Fn, h.What, fmt.Sprintf("%s inside the %s region (%s:%d): a source of node-dependent behaviour that is not triaged; reached via %s", h.What, regionName, h.File, h.Line, chain), why, h.File, h.Line)
	}
	if len(hits) == 0 {
		r.Notes = append(r.Notes, "determinism inventory of region "+regionName+" is empty")
	}
}

// mapLoopSig summarises what makes a range-over-map order-sensitive: an early exit from the loop
// body (break/return: selects "the first" element) and appends inside the body (records the order).
func mapLoopSig(rg *ssa.Range) string {
	fn := rg.Parent()
	// header: the block holding the Next of this iterator
	var header *ssa.BasicBlock
	for _, ref := range *rg.Referrers() {
		if nx, ok := ref.(*ssa.Next); ok {
			header = nx.Block()
		}
	}
	if header == nil {
		return "[exit=? append=?]"
	}
	// natural loop: blocks dominated by header from which header is reachable
	canReach := map[*ssa.BasicBlock]bool{header: true}
	work := []*ssa.BasicBlock{header}
	for len(work) > 0 {
		b := work[len(work)-1]
		work = work[:len(work)-1]
		for _, p := range b.Preds {
			if !canReach[p] && header.Dominates(p) {
				canReach[p] = true
				work = append(work, p)
			}
		}
	}
	_ = fn
	exit := 0
	appends := 0
	for b := range canReach {
		if b != header {
			for _, s := range b.Succs {
				if !canReach[s] {
					exit = 1
				}
			}
		}
		for _, in := range b.Instrs {
			if c, ok := in.(*ssa.Call); ok {
				if bi, ok := c.Call.Value.(*ssa.Builtin); ok && bi.Name() == "append" {
					appends++
				}
			}
		}
	}
	// a sort.* call that every path leaving the loop normally reaches (dominated by the loop's exit)
	sorted := 0
	for _, s := range header.Succs {
		if canReach[s] {
			continue
		}
		for _, b := range fn.Blocks {
			if b != s && !s.Dominates(b) {
				continue
			}
			for _, in := range b.Instrs {
				if c, ok := in.(*ssa.Call); ok {
					if f := c.Call.StaticCallee(); f != nil && f.Pkg != nil && f.Pkg.Pkg.Path() == "sort" {
						sorted = 1
					}
				}
			}
		}
	}
	return fmt.Sprintf("[exit=%d append=%d sorted=%d]", exit, appends, sorted)
}

// frontierReadInventory lists, inside a region, every call that reads the node's *current* frontier
// (chain-level getters) rather than the view a block or momentum is evaluated against.
func (r *Run) frontierReadInventory(reg map[*ssa.Function]*ssa.Function) []lintHit {
	var hits []lintHit
	for f := range reg {
		name := r.P.FuncName(f)
		if name == "" || f.Blocks == nil {
			continue
		}
		for _, cs := range r.P.Calls(f, false) {
			switch cs.Method {
			case "GetFrontierMomentumStore", "GetFrontierAccountStore", "FrontierPillarReader", "GetFrontierAccountBlock":
			default:
				continue
			}
			// a getter of a momentum-store view (store.Momentum.GetFrontierAccountBlock) reads that view, not the node
			if strings.Contains(cs.Callee, "store.Momentum.") || strings.Contains(cs.Callee, "momentumStore).") {
				continue
			}
			hits = append(hits, lintHit{Fn: name, What: "frontier-read:" + cs.Callee, File: cs.File, Line: cs.Line})
		}
	}
	sort.Slice(hits, func(i, j int) bool {
		if hits[i].Fn != hits[j].Fn {
			return hits[i].Fn < hits[j].Fn
		}
		if hits[i].What != hits[j].What {
			return hits[i].What < hits[j].What
		}
		return hits[i].Line < hits[j].Line
	})
	return hits
}

// ContextReads: every node-frontier read inside the region is triaged by symbol.
func (r *Run) ContextReads(regionName string, reg map[*ssa.Function]*ssa.Function, table map[string]string, why string) {
	seen := map[string]bool{}
	for _, h := range r.frontierReadInventory(reg) {
		key := h.Fn + "|" + h.What
		if seen[key] {
			continue
		}
		seen[key] = true
		if reason, ok := table[key]; ok {
			r.pass("K1-context-read", h.Fn, h.What, "triaged: "+reason, why, h.File, h.Line)
			continue
		}
		chain := ""
		for f := range reg {
			if r.P.FuncName(f) == h.Fn {
				chain = strings.Join(r.P.Chain(reg, f), " → ")
			}
		}
		r.viol("K1-context-read", h.Fn, h.What, fmt.Sprintf("%s reads the node's current frontier (%s:%d) inside the %s region: the outcome depends on how far this node's chain has advanced when it evaluates the block, not on the ledger the block acknowledges; reached via %s", h.Fn, h.File, h.Line, regionName, chain), why, h.File, h.Line)
	}
}

// cacheInventory lists every struct field and package-level variable, in the given module packages,
// that can hold derived or memoised state across calls: maps, LRU caches, sync.Map (directly or
// behind a pointer). Each is a place where a result computed from one ledger state can be served
// for another.
func (r *Run) cacheInventory(pkgs []string) []lintHit {
	var hits []lintHit
	var isCacheType func(t types.Type) string
	isCacheType = func(t types.Type) string {
		if pt, ok := t.Underlying().(*types.Pointer); ok {
			t = pt.Elem()
		}
		switch x := t.Underlying().(type) {
		case *types.Slice:
			if k := isCacheType(x.Elem()); k != "" && k != "map" {
				return "[]" + k
			}
		case *types.Array:
			if k := isCacheType(x.Elem()); k != "" && k != "map" {
				return "[]" + k
			}
		}
		if nt, ok := t.(*types.Named); ok && nt.Obj().Pkg() != nil {
			switch nt.Obj().Pkg().Path() + "." + nt.Obj().Name() {
			case "github.com/hashicorp/golang-lru.Cache", "github.com/hashicorp/golang-lru.ARCCache", "github.com/hashicorp/golang-lru.TwoQueueCache", "sync.Map":
				return nt.Obj().Name()
			}
		}
		if _, ok := t.Underlying().(*types.Map); ok {
			return "map"
		}
		return ""
	}
	for _, rel := range pkgs {
		pk := r.P.Pkg(rel)
		if pk == nil {
			r.viol("unresolved-anchor", "", "package "+rel, "package not loaded", "", "", 0)
			continue
		}
		scope := pk.Types.Scope()
		for _, name := range scope.Names() {
			switch o := scope.Lookup(name).(type) {
			case *types.Var:
				if k := isCacheType(o.Type()); k != "" {
					f, l := r.P.Pos(o.Pos())
					hits = append(hits, lintHit{Fn: rel + "." + name, What: "state:" + k + " (package variable)", File: f, Line: l})
				}
			case *types.TypeName:
				st, ok := o.Type().Underlying().(*types.Struct)
				if !ok {
					continue
				}
				for i := 0; i < st.NumFields(); i++ {
					fd := st.Field(i)
					if k := isCacheType(fd.Type()); k != "" {
						f, l := r.P.Pos(fd.Pos())
						hits = append(hits, lintHit{Fn: rel + "." + name + "." + fd.Name(), What: "state:" + k, File: f, Line: l})
					}
				}
			}
		}
	}
	sort.Slice(hits, func(i, j int) bool { return hits[i].Fn < hits[j].Fn })
	return hits
}

// CacheInventory: every cache-capable field/variable of the listed packages is triaged with the
// mechanism that keeps it consistent with the ledger (content-addressed key, validate-on-read,
// purge-on-rewind, immutable after construction, per-call scratch, not ledger-derived).
func (r *Run) CacheInventory(pkgs []string, table map[string]string, why string) {
	for _, h := range r.cacheInventory(pkgs) {
		if reason, ok := table[h.Fn]; ok {
			r.pass("K10-cache-inventory", h.Fn, h.What, "triaged: "+reason, why, h.File, h.Line)
			continue
		}
		r.viol("K10-cache-inventory", h.Fn, h.What, fmt.Sprintf("%s (%s:%d) can memoise results across calls and has no recorded invalidation mechanism: a value computed from one ledger state (branch, height, view) can be served for another", h.Fn, h.File, h.Line), why, h.File, h.Line)
	}
}

// sharedBigIntInLoop lists stores, inside a loop body, of the result of a *big.Int mutator whose
// receiver was created outside that loop: every iteration then stores the same object (one shared
// big.Int aliased into all records; the last value wins everywhere).
func (r *Run) sharedBigIntInLoop(fn *ssa.Function) []lintHit {
	var hits []lintHit
	name := r.P.FuncName(fn)
	for _, hb := range fn.Blocks {
		if !isLoopHeader(hb) {
			continue
		}
		// natural loop of hb
		in := map[*ssa.BasicBlock]bool{hb: true}
		var work []*ssa.BasicBlock
		for _, p := range hb.Preds {
			if hb.Dominates(p) {
				work = append(work, p)
			}
		}
		for len(work) > 0 {
			x := work[len(work)-1]
			work = work[:len(work)-1]
			if in[x] {
				continue
			}
			in[x] = true
			work = append(work, x.Preds...)
		}
		for b := range in {
			for _, ins := range b.Instrs {
				var val ssa.Value
				switch x := ins.(type) {
				case *ssa.Store:
					if isLocalAddr(x.Addr) {
						continue
					}
					val = x.Val
				case *ssa.MapUpdate:
					val = x.Value
				default:
					continue
				}
				c, ok := val.(*ssa.Call)
				if !ok || !in[c.Block()] {
					continue
				}
				f := c.Call.StaticCallee()
				if f == nil || !strings.HasPrefix(f.String(), "(*math/big.Int).") || len(c.Call.Args) == 0 {
					continue
				}
				recv := c.Call.Args[0]
				ri, ok := recv.(ssa.Instruction)
				if !ok {
					continue
				}
				if _, isCall := recv.(*ssa.Call); !isCall {
					continue // fields/params: not a fresh object created by this function
				}
				if in[ri.Block()] {
					continue
				}
				file, line := r.P.Pos(ins.Pos())
				hits = append(hits, lintHit{Fn: name, What: "shared-big-int:" + r.P.Env(fn).of(val).String(), File: file, Line: line})
			}
		}
	}
	return hits
}

// NoSharedBigIntInLoop: no function of the listed packages stores into per-iteration records a
// *big.Int that was created once outside the loop.
func (r *Run) NoSharedBigIntInLoop(pkgPrefixes []string, why string) {
	n := 0
	for _, name := range r.P.FuncNames() {
		ok := false
		for _, p := range pkgPrefixes {
			if strings.HasPrefix(name, p) {
				ok = true
			}
		}
		fn := r.P.Fn(name)
		if !ok || fn.Blocks == nil {
			continue
		}
		n++
		for _, h := range r.sharedBigIntInLoop(fn) {
			r.viol("K10-shared-object", h.Fn, h.What, fmt.Sprintf("%s stores, on every iteration of a loop (%s:%d), the result of a big.Int mutator whose receiver was created once before the loop: all stored records share one number and end up with the last value", h.Fn, h.File, h.Line), why, h.File, h.Line)
		}
	}
	r.pass("K10-shared-object", strings.Join(pkgPrefixes, ","), "no big.Int created outside a loop is stored per iteration", fmt.Sprintf("%d functions scanned", n), why, "", 0)
}
