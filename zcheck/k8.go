package main

import (
	"fmt"
	"go/token"
	"go/types"
	"sort"
	"strings"

	"golang.org/x/tools/go/ssa"
)

// ---------------------------------------------------------------------------------------------
// sentinel summary: which vm/constants (or other package-level) error variables a function can return

type sentinelInfo struct {
	sets       map[*ssa.Function]map[string]bool
	valueSetFn func(v ssa.Value, at *ssa.BasicBlock, depth int) map[string]bool
}

func sentinelName(v ssa.Value) string {
	if mi, ok := v.(*ssa.MakeInterface); ok {
		v = mi.X
	}
	u, ok := v.(*ssa.UnOp)
	if !ok || u.Op != token.MUL {
		return ""
	}
	g, ok := u.X.(*ssa.Global)
	if !ok || !isErrorType(g.Type().(*types.Pointer).Elem()) || g.Pkg == nil {
		return ""
	}
	// the protocol's expected-outcome errors live in vm/constants; library errors (leveldb, abi
	// internals) on the in-memory overlay are outside the rule (trusted base)
	if !strings.HasSuffix(g.Pkg.Pkg.Path(), "/vm/constants") {
		return ""
	}
	return g.Pkg.Pkg.Name() + "." + g.Name()
}

// excludedSentinels: sentinels S such that block b is only reachable through an edge on which v != S.
func excludedSentinels(v ssa.Value, b *ssa.BasicBlock) map[string]bool {
	out := map[string]bool{}
	fn := b.Parent()
	for _, blk := range fn.Blocks {
		ifi, ok := lastInstr(blk).(*ssa.If)
		if !ok {
			continue
		}
		bo, ok := ifi.Cond.(*ssa.BinOp)
		if !ok || (bo.Op != token.EQL && bo.Op != token.NEQ) {
			continue
		}
		var other ssa.Value
		if sameValue(bo.X, v) {
			other = bo.Y
		} else if sameValue(bo.Y, v) {
			other = bo.X
		} else {
			continue
		}
		s := sentinelName(other)
		if s == "" {
			// v == nil: on the nil edge no sentinel at all
			if c, isC := other.(*ssa.Const); isC && c.Value == nil {
				nilSucc := blk.Succs[0]
				if bo.Op == token.NEQ {
					nilSucc = blk.Succs[1]
				}
				if edgeDominates(blk, nilSucc, b) {
					out["*"] = true
				}
			}
			continue
		}
		neSucc := blk.Succs[1] // v == S false edge
		if bo.Op == token.NEQ {
			neSucc = blk.Succs[0]
		}
		if edgeDominates(blk, neSucc, b) {
			out[s] = true
		}
	}
	return out
}

func (p *Prog) sentinels() *sentinelInfo {
	si := &sentinelInfo{sets: map[*ssa.Function]map[string]bool{}}
	var fns []*ssa.Function
	for _, n := range p.FuncNames() {
		f := p.Fn(n)
		if f.Blocks != nil && errResultIndex(f.Signature) >= 0 {
			fns = append(fns, f)
			si.sets[f] = map[string]bool{}
		}
	}
	// interface dispatch: union over module implementations found by CHA at the call site
	calleeSets := func(c *ssa.CallCommon) map[string]bool {
		out := map[string]bool{}
		if f := c.StaticCallee(); f != nil {
			for k := range si.sets[f] {
				out[k] = true
			}
			return out
		}
		if c.IsInvoke() {
			// all module methods with that name whose receiver implements the interface
			iface, _ := c.Value.Type().Underlying().(*types.Interface)
			if iface == nil {
				return out
			}
			for f, s := range si.sets {
				if f.Name() != c.Method.Name() || f.Signature.Recv() == nil {
					continue
				}
				if types.Implements(f.Signature.Recv().Type(), iface) {
					for k := range s {
						out[k] = true
					}
				}
			}
		}
		return out
	}
	var valueSet func(v ssa.Value, at *ssa.BasicBlock, depth int) map[string]bool
	valueSet = func(v ssa.Value, at *ssa.BasicBlock, depth int) map[string]bool {
		out := map[string]bool{}
		if depth > 6 {
			return out
		}
		if s := sentinelName(v); s != "" {
			out[s] = true
			return out
		}
		switch x := v.(type) {
		case *ssa.Phi:
			for i, e := range x.Edges {
				for k := range valueSet(e, x.Block().Preds[i], depth+1) {
					out[k] = true
				}
			}
		case *ssa.Extract:
			if c, ok := x.Tuple.(*ssa.Call); ok {
				for k := range calleeSets(&c.Call) {
					out[k] = true
				}
			}
		case *ssa.Call:
			for k := range calleeSets(&x.Call) {
				out[k] = true
			}
		case *ssa.MakeInterface:
			return valueSet(x.X, at, depth+1)
		case *ssa.ChangeInterface:
			return valueSet(x.X, at, depth+1)
		}
		if at != nil && len(out) > 0 {
			ex := excludedSentinels(v, at)
			if ex["*"] {
				return map[string]bool{}
			}
			for k := range ex {
				delete(out, k)
			}
		}
		return out
	}
	for iter := 0; iter < 12; iter++ {
		changed := false
		for _, f := range fns {
			ei := errResultIndex(f.Signature)
			for _, b := range f.Blocks {
				ret, ok := lastInstr(b).(*ssa.Return)
				if !ok || ei >= len(ret.Results) {
					continue
				}
				for k := range valueSet(retOperand(ret, ei), b, 0) {
					if !si.sets[f][k] {
						si.sets[f][k] = true
						changed = true
					}
				}
			}
		}
		if !changed {
			break
		}
	}
	si.valueSetFn = valueSet
	return si
}

// SentinelPanics: in the listed function-name prefixes, every common.DealWithErr(err)/panic(err)
// whose err can still be a sentinel error at that point is a violation (a sentinel is an expected
// outcome — "data does not exist" — that must be handled, not panicked on).
func (r *Run) SentinelPanics(prefixes []string, exceptions map[string]string, why string) {
	si := r.P.sentinels()
	nSites := 0
	for _, name := range r.P.FuncNames() {
		hit := false
		for _, pre := range prefixes {
			if strings.HasPrefix(name, pre) {
				hit = true
			}
		}
		if !hit {
			continue
		}
		fn := r.P.Fn(name)
		if fn.Blocks == nil {
			continue
		}
		for _, b := range fn.Blocks {
			for _, in := range b.Instrs {
				if !isDealWithErr(in) {
					continue
				}
				c := in.(*ssa.Call)
				arg := c.Call.Args[0]
				for {
					if mi, ok := arg.(*ssa.MakeInterface); ok {
						arg = mi.X
					} else if ci, ok := arg.(*ssa.ChangeInterface); ok {
						arg = ci.X
					} else {
						break
					}
				}
				set := si.valueSetFn(arg, b, 0)
				nSites++
				file, line := r.P.Pos(c.Pos())
				construct := "DealWithErr(" + r.P.Env(fn).of(arg).String() + ")"
				if len(set) == 0 {
					continue
				}
				var ss []string
				for k := range set {
					ss = append(ss, k)
				}
				sort.Strings(ss)
				if reason, ok := exceptions[name+"|"+construct]; ok {
					r.pass("K8-sentinel-panic", name, construct, "exception: "+reason, why, file, line)
					continue
				}
				r.viol("K8-sentinel-panic", name, construct, fmt.Sprintf("%s at %s:%d panics on an error that can still be the sentinel %s at this point (the callee returns it for an expected condition); compare it first or return it", construct, file, line, strings.Join(ss, ", ")), why, file, line)
			}
		}
	}
	r.pass("K8-sentinel-panic", "", "census", fmt.Sprintf("%d DealWithErr sites analysed in %v", nSites, prefixes), why, "", 0)
	if nSites == 0 {
		r.viol("vacuous-rule", "", "sentinel panics", "no DealWithErr site found", why, "", 0)
	}
}

// ---------------------------------------------------------------------------------------------
// divisions

type divSite struct {
	Fn      string
	Divisor string
	Op      string
	File    string
	Line    int
	Guarded bool
	Const   bool
}

func (r *Run) divisionInventory(prefixes []string) []divSite {
	var out []divSite
	for _, name := range r.P.FuncNames() {
		hit := false
		for _, pre := range prefixes {
			if strings.HasPrefix(name, pre) {
				hit = true
			}
		}
		if !hit {
			continue
		}
		fn := r.P.Fn(name)
		if fn.Blocks == nil {
			continue
		}
		env := r.P.Env(fn)
		fi := r.P.Info(fn)
		for _, b := range fn.Blocks {
			for _, in := range b.Instrs {
				var div ssa.Value
				op := ""
				switch x := in.(type) {
				case *ssa.BinOp:
					if x.Op == token.QUO || x.Op == token.REM {
						if bt, ok := x.X.Type().Underlying().(*types.Basic); ok && bt.Info()&types.IsInteger != 0 {
							div, op = x.Y, x.Op.String()
						}
					}
				case *ssa.Call:
					if f := x.Call.StaticCallee(); f != nil && strings.HasPrefix(f.String(), "(*math/big.Int).") {
						switch f.Name() {
						case "Quo", "Div", "Mod", "Rem", "QuoRem", "DivMod":
							div, op = x.Call.Args[2], "big."+f.Name()
						}
					}
				}
				if div == nil {
					continue
				}
				ds := divSite{Fn: name, Divisor: env.of(div).String(), Op: op}
				ds.File, ds.Line = r.P.Pos(in.Pos())
				if r.P.nonZeroConst(div, 0) {
					ds.Const = true
				}
				// closures: a captured divisor guarded in the enclosing function before the closure is made
				if par := fn.Parent(); par != nil && !ds.Const {
					pfi := r.P.Info(par)
					for _, pb := range par.Blocks {
						for _, pin := range pb.Instrs {
							mc, ok := pin.(*ssa.MakeClosure)
							if !ok || mc.Fn != ssa.Value(fn) {
								continue
							}
							for _, g := range pfi.guards {
								cs := []string{g.Cond.String(), g.Cond.Negate().String()}
								for i, c := range cs {
									if c != "eq(0,"+ds.Divisor+")" && c != "eq("+ds.Divisor+",0)" && c != "le("+ds.Divisor+",0)" {
										continue
									}
									nz := g.Block.Succs[1]
									if i == 1 {
										nz = g.Block.Succs[0]
									}
									if edgeDominates(g.Block, nz, pb) {
										ds.Guarded = true
									}
								}
							}
						}
					}
				}
				// dominated by a zero test of the same path
				for _, g := range fi.guards {
					cs := []string{g.Cond.String(), g.Cond.Negate().String()}
					for i, c := range cs {
						zero := c == "eq(0,"+ds.Divisor+")" || c == "eq("+ds.Divisor+",0)" || c == "eq("+ds.Divisor+",common.Big0)" || c == "eq(common.Big0,"+ds.Divisor+")" || c == "le("+ds.Divisor+",0)"
						if !zero {
							continue
						}
						// the edge on which the divisor is NOT zero must dominate the division
						nz := g.Block.Succs[1]
						if i == 1 {
							nz = g.Block.Succs[0]
						}
						if edgeDominates(g.Block, nz, b) {
							ds.Guarded = true
						}
					}
				}
				out = append(out, ds)
			}
		}
	}
	sort.Slice(out, func(i, j int) bool {
		if out[i].Fn != out[j].Fn {
			return out[i].Fn < out[j].Fn
		}
		return out[i].Line < out[j].Line
	})
	return out
}

// Divisions: every division in the listed functions has a divisor that is a non-zero constant, is
// dominated by a zero test of the same access path, or is triaged in table ("<fn>|<divisor>").
func (r *Run) Divisions(prefixes []string, table map[string]string, why string) {
	sites := r.divisionInventory(prefixes)
	seen := map[string]bool{}
	for _, d := range sites {
		key := d.Fn + "|" + d.Divisor
		if seen[key] {
			continue
		}
		seen[key] = true
		switch {
		case d.Const:
			r.pass("K3-divisor", d.Fn, "divisor "+d.Divisor, "non-zero constant", why, d.File, d.Line)
		case d.Guarded:
			r.pass("K3-divisor", d.Fn, "divisor "+d.Divisor, "dominated by a zero test of the same path", why, d.File, d.Line)
		default:
			if reason, ok := table[key]; ok {
				r.pass("K3-divisor", d.Fn, "divisor "+d.Divisor, "triaged: "+reason, why, d.File, d.Line)
			} else {
				r.viol("K3-divisor", d.Fn, "divisor "+d.Divisor, fmt.Sprintf("%s by `%s` at %s:%d: the divisor is neither a non-zero constant nor guarded by a zero test of the same value, and is not triaged — a zero divisor panics (big.Int) or traps", d.Op, d.Divisor, d.File, d.Line), why, d.File, d.Line)
			}
		}
	}
	if len(sites) == 0 {
		r.viol("vacuous-rule", "", "divisions", "no division found", why, "", 0)
	}
}

// ---------------------------------------------------------------------------------------------
// constant-like non-zero expressions

type globalFacts struct {
	initVal map[string]ssa.Value       // "pkg.Name" → value stored by the package initialiser
	initFn  map[string]*ssa.Function
	writers map[string][]string        // other functions storing to the global
}

var gfCache *globalFacts

func (p *Prog) globals() *globalFacts {
	if gfCache != nil {
		return gfCache
	}
	gf := &globalFacts{initVal: map[string]ssa.Value{}, initFn: map[string]*ssa.Function{}, writers: map[string][]string{}}
	for _, name := range p.FuncNames() {
		fn := p.Fn(name)
		if fn.Blocks == nil || isScaffolding(name) {
			continue
		}
		isInit := strings.HasSuffix(name, ".init") || strings.Contains(name, ".init#")
		for _, b := range fn.Blocks {
			for _, in := range b.Instrs {
				st, ok := in.(*ssa.Store)
				if !ok {
					continue
				}
				g, ok := st.Addr.(*ssa.Global)
				if !ok || g.Pkg == nil {
					continue
				}
				key := g.Pkg.Pkg.Name() + "." + g.Name()
				if isInit {
					gf.initVal[key] = st.Val
					gf.initFn[key] = fn
				} else {
					gf.writers[key] = append(gf.writers[key], name)
				}
			}
		}
	}
	gfCache = gf
	return gf
}

// nonZeroConst: the value is a non-zero compile-time-like constant: a literal, big.NewInt/conversion
// of one, a sum/product of such, or a package-level variable initialised to one that no non-test
// function assigns (vm/constants "constants" are vars that only tests patch).
func (p *Prog) nonZeroConst(v ssa.Value, depth int) bool {
	if depth > 6 || v == nil {
		return false
	}
	switch x := v.(type) {
	case *ssa.Const:
		return x.Value != nil && x.Value.String() != "0" && x.Value.Kind().String() != "String"
	case *ssa.Convert:
		return p.nonZeroConst(x.X, depth+1)
	case *ssa.ChangeType:
		return p.nonZeroConst(x.X, depth+1)
	case *ssa.BinOp:
		if x.Op == token.ADD || x.Op == token.MUL {
			return p.nonZeroConst(x.X, depth+1) && p.nonZeroConst(x.Y, depth+1)
		}
	case *ssa.Call:
		if f := x.Call.StaticCallee(); f != nil {
			switch f.String() {
			case "math/big.NewInt":
				return p.nonZeroConst(x.Call.Args[0], depth+1)
			case "(*math/big.Int).SetInt64", "(*math/big.Int).SetUint64":
				return p.nonZeroConst(x.Call.Args[1], depth+1)
			case "(*math/big.Int).Exp":
				return p.nonZeroConst(x.Call.Args[1], depth+1)
			}
		}
	case *ssa.UnOp:
		if x.Op == token.MUL {
			if g, ok := x.X.(*ssa.Global); ok && g.Pkg != nil {
				key := g.Pkg.Pkg.Name() + "." + g.Name()
				gf := p.globals()
				if len(gf.writers[key]) > 0 {
					return false
				}
				return p.nonZeroConst(gf.initVal[key], depth+1)
			}
		}
	}
	return false
}

// panicInventory: explicit panic instructions in the region (by function), with the canonical form of the argument.
func (r *Run) panicInventory(reg map[*ssa.Function]*ssa.Function) []lintHit {
	var hits []lintHit
	for f := range reg {
		name := r.P.FuncName(f)
		if name == "" || f.Blocks == nil {
			continue
		}
		env := r.P.Env(f)
		for _, b := range f.Blocks {
			if pn, ok := lastInstr(b).(*ssa.Panic); ok {
				arg := env.of(pn.X).String()
				if len(arg) > 60 {
					arg = arg[:60]
				}
				file, line := r.P.Pos(pn.Pos())
				hits = append(hits, lintHit{Fn: name, What: "panic(" + arg + ")", File: file, Line: line})
			}
		}
	}
	sort.Slice(hits, func(i, j int) bool {
		if hits[i].Fn != hits[j].Fn {
			return hits[i].Fn < hits[j].Fn
		}
		return hits[i].Line < hits[j].Line
	})
	return hits
}
