package main

// C08 — committing or rolling back a momentum is atomic across a crash.
// Single atomic write: given goleveldb's batch atomicity (trusted), "all mutations of one
// commit/rollback go through exactly one Write(batch)" is close to the whole statement.

const ldbDB = "(*github.com/syndtr/goleveldb/leveldb.DB)"
const ldbBatch = "(*github.com/syndtr/goleveldb/leveldb.Batch)"

func init() {
	register(&propDef{
		ID: "C08",
		Explain: "Single atomic write (K1+K2+K4): ldbManager.Add and Pop each build exactly one leveldb.Batch that receives the redo record, the undo record and every state key (Pop: the undo of every key and the removal of both records), and hand it to exactly one (*leveldb.DB).Write, on the accept edge of the parent check, under the manager mutex; " +
			"no (*leveldb.DB).Put/Delete is called from the versioned-store code at all (CHA who-may-call: only the consensus cache's levelDBWrapper.Put, and NewLevelDBWrapper is constructed only for that cache); the batch wrapper's Put only appends to the batch. With goleveldb's batch atomicity (trusted) this is sufficient for before-or-after across a process death.",
		NotDec: "durability against OS/power loss (no Sync write option is used; the statement speaks of the process dying); that chain.Init needs no repair beyond atomicity; what re-delivery after the crash computes (C02/C16).",
		Run:    runC08,
		Controls: []control{
			{Name: "direct-put-in-add", File: "common/db/versioned_db.go", Old: "\t\tbatch.Put(common.JoinBytes(rollbackByte, common.Uint64ToBytes(identifier.Height)), rollbackPatch.Dump())\n", New: "\t\tif err := m.ldb.Put(common.JoinBytes(rollbackByte, common.Uint64ToBytes(identifier.Height)), rollbackPatch.Dump(), nil); err != nil {\n\t\t\treturn err\n\t\t}\n", ExpectKeySub: "leveldb.DB).Put"},
			{Name: "two-writes-in-pop", File: "common/db/versioned_db.go", Old: "\tbatch.Delete(common.JoinBytes(patchByte, common.Uint64ToBytes(frontierIdentifier.Height)))\n", New: "\tif err := m.ldb.Write(batch, nil); err != nil {\n\t\treturn err\n\t}\n\tbatch = new(leveldb.Batch)\n\tbatch.Delete(common.JoinBytes(patchByte, common.Uint64ToBytes(frontierIdentifier.Height)))\n", ExpectKeySub: "Write"},
			{Name: "state-keys-outside-batch", File: "common/db/versioned_db.go", Old: "\t\tif err := ApplyPatch(newLevelDBBatchWrapper(batch).Subset(frontierByte), patch); err != nil {\n\t\t\treturn err\n\t\t}\n\t\tif err := m.ldb.Write(batch, nil); err != nil {\n\t\t\treturn err\n\t\t}\n", New: "\t\tif err := m.ldb.Write(batch, nil); err != nil {\n\t\t\treturn err\n\t\t}\n\t\tif err := ApplyPatch(NewLevelDBWrapper(m.ldb).Subset(frontierByte), patch); err != nil {\n\t\t\treturn err\n\t\t}\n", ExpectKeySub: "ApplyPatch"},
			{Name: "pop-unlocked", File: "common/db/versioned_db.go", Old: "func (m *ldbManager) Pop() error {\n\tm.changes.Lock()\n\tdefer m.changes.Unlock()\n", New: "func (m *ldbManager) Pop() error {\n", ExpectKeySub: "K6-lockset"},
			{Name: "undo-record-dropped", File: "common/db/versioned_db.go", Old: "\t\tbatch.Put(common.JoinBytes(rollbackByte, common.Uint64ToBytes(identifier.Height)), rollbackPatch.Dump())\n", New: "\t\t_ = rollbackPatch\n", ExpectKeySub: "rollbackByte"},
		},
	})
}

func runC08(r *Run) {
	r.CacheInventory([]string{"common/db"}, cacheTriage, "a memo of store content (decoded redo/undo records, views) that outlives a commit or rollback makes the next operation apply stale records: what is written durably is then neither the state before nor the state after")
	add, pop := "common/db.(*ldbManager).Add", "common/db.(*ldbManager).Pop"
	r.Alias("$prev", "a0.GetCommits()[0].Previous()")
	r.Alias("$front", "db.GetFrontierIdentifier(db.NewLevelDBSnapshotWrapper(recv.ldb.GetSnapshot()#0).Subset(db.frontierByte))")
	r.Alias("$id", "a0.GetCommits()[(len(a0.GetCommits())-1)].Identifier()")
	r.Alias("$batch", "new(leveldb.Batch)")
	why1 := "a commit/rollback reaches the store through exactly one atomic Write"
	for _, f := range []string{add, pop} {
		r.CallCount(f, ldbDB+".Write", 1, why1)
		r.AllocCount(f, "leveldb.Batch", 1, "one batch collects the whole operation")
		r.CallsUnderLock(f, "changes", ldbDB+".Write", "the write happens under the manager mutex, so Frontier()/Get() snapshots see before or after")
		r.Has(f, "recv.ldb.Write($batch,nil)", "the batch that was filled is the one written")
	}
	r.WhoMayCallExt("leveldb Write", ldbDB+".Write", []string{add, pop}, false, "only commit and rollback write the versioned store")
	r.WhoMayCallExt("leveldb direct Put", ldbDB+".Put", []string{"common/db.(*levelDBWrapper).Put", "p2p/discover.*"}, false, "no key-by-key write to a leveldb.DB except through the consensus cache's wrapper (p2p/discover keeps its own, unrelated peer database)")
	r.WhoMayCallExt("leveldb direct Delete", ldbDB+".Delete", []string{"p2p/discover.*"}, true, "no key-by-key delete on a leveldb.DB")
	r.WhoMayCall("writable leveldb wrapper", []string{"common/db.NewLevelDBWrapper"}, []string{"common/db.NewLevelDB"}, "a writable, non-atomic wrapper over a leveldb.DB is built only for the consensus cache database, never over the versioned store")
	r.WhoConstructs("common/db", "levelDBWrapper", []string{"common/db.NewLevelDBWrapper"}, "same")

	// Add: contents of the batch, and that nothing is written on the refusal path
	r.Has(add, "$batch.Put(common.JoinBytes(list(db.patchByte,common.Uint64ToBytes($id.Height))),a0.StealChanges().Dump())", "redo record in the batch")
	r.Has(add, "$batch.Put(common.JoinBytes(list(db.rollbackByte,common.Uint64ToBytes($id.Height))),db.RollbackPatch(recv.Get($prev),a0.StealChanges()).Dump())", "undo record in the batch")
	r.Has(add, "db.ApplyPatch(db.newLevelDBBatchWrapper($batch).Subset(db.frontierByte),a0.StealChanges())", "every state key (incl. the frontier pointer) in the batch")
	r.Order(add, "common/db.ApplyPatch", ldbDB+".Write", "the batch is complete before it is written")
	r.Order(add, ldbBatch+".Put", ldbDB+".Write", "the batch is complete before it is written")
	r.OnlyUnder(add, "eq($prev,$front)", ldbDB+".Write", "a commit on any other parent writes nothing")
	r.Guards([]row{
		{F: add, C: "ne(db.ApplyPatch(db.newLevelDBBatchWrapper($batch).Subset(db.frontierByte),a0.StealChanges()),nil) @ eq($prev,$front)", Pre: []string{ldbDB + ".Write"}, Why: "a batch that could not be filled is not written"},
		{F: add, C: "ne(nil,recv.ldb.Write($batch,nil)) @ eq($prev,$front)", Why: "a failed write is reported"},
		{F: pop, C: "ne(nil,recv.ldb.Write($batch,nil))", Why: "a failed write is reported"},
	})
	// Pop
	r.Alias("$pf", "db.GetFrontierIdentifier(db.NewLevelDBSnapshotWrapper(recv.ldb.GetSnapshot()#0).Subset(db.frontierByte))")
	r.Has(pop, "db.ApplyPatch(db.newLevelDBBatchWrapper($batch).Subset(db.frontierByte),recv.getRollback($pf.Height))", "the undo patch of the frontier height is applied into the batch")
	r.Has(pop, "$batch.Delete(common.JoinBytes(list(db.patchByte,common.Uint64ToBytes($pf.Height))))", "redo record removed in the same batch")
	r.Has(pop, "$batch.Delete(common.JoinBytes(list(db.rollbackByte,common.Uint64ToBytes($pf.Height))))", "undo record removed in the same batch")
	r.Order(pop, "common/db.ApplyPatch", ldbDB+".Write", "the batch is complete before it is written")
	r.Order(pop, ldbBatch+".Delete", ldbDB+".Write", "the batch is complete before it is written")
	// the batch wrapper only appends
	r.Has("common/db.(*levelDBBatchWrapper).Put", "recv.batch.Put(a0,a1)", "the wrapper's Put appends to the batch and touches nothing else")
	r.Returns("common/db.newLevelDBBatchWrapper", []string{"db.enableDelete(new(db.levelDBBatchWrapper))"}, "state keys are encoded by the same enableDelete layer as before (present = 0x00‖value, deleted = empty)")
	r.Has("common/db.newLevelDBBatchWrapper", "store new(db.levelDBBatchWrapper).batch = a0", "the wrapper writes into the caller's batch")
	// record keys are read with the constructors they are written with
	r.Has("common/db.(*ldbManager).getRollback", "recv.ldb.GetSnapshot()#0.Get(common.JoinBytes(list(db.rollbackByte,common.Uint64ToBytes(a0))),nil)", "undo record reader key = writer key")
	r.Has("common/db.(*ldbManager).getPatch", "recv.ldb.GetSnapshot()#0.Get(common.JoinBytes(list(db.patchByte,common.Uint64ToBytes(a0.Height))),nil)", "redo record reader key = writer key")
}
