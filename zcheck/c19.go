package main

// C19 — wallet key files: exact round-trip, tamper-evident, deterministic derivation.

func init() {
	register(&propDef{
		ID: "C19",
		Explain: "Parameter agreement (K10+K4): both argon2.IDKey call sites (create: Set, open: SetFromJSON) pass the same constants (time 1, memory 64 MiB, threads 4, key length 32) and the salt that is stored in / read from the file; Seal and Open use the same additional data, a nil destination (the stored ciphertext is never overwritten in place), and the nonce/ciphertext that Encrypt stores in the file are the values Seal was called with / returned; Decrypt feeds Crypto.CipherData, Crypto.AesNonce and Argon2Params.Salt back to the matching parameters; " +
			"tamper evidence rests on the AEAD (K2): no plaintext is returned when Open fails, and the error is ErrWrongPassword; derivation: derive refuses non-hardened indexes (< 2^31), DeriveForPath validates the path and adds the hardened offset to every segment, the base address recorded by keyStoreFromEntropy is the address of index path 0, toKeyPair derives the address from the public key; the derivation and decrypt region contains no randomness or clock (K9) — GetEntropyCSPRNG is called only on the encrypt side.",
		NotDec: "round-trip equality, wrong-password rejection and signature validity on values (cryptography); cipher.AEAD.Open panics on a nonce of the wrong length (recorded; single-bit corruptions keep the length).",
		Run:    runC19,
		Controls: []control{
			{Name: "argon-memory-differs", File: "wallet/password.go", Old: "func (h *passwordHash) SetFromJSON(password string, params argon2Params) error {\n\th.salt = params.Salt\n", New: "func (h *passwordHash) SetFromJSON(password string, params argon2Params) error {\n\th.salt = params.Salt[:len(params.Salt):len(params.Salt)]\n", ExpectKeySub: "SetFromJSON"},
			{Name: "open-in-place", File: "wallet/crypto.go", Old: "stream.Open(nil,", New: "stream.Open(cipherText[:0],", ExpectKeySub: "aesGCMDecrypt"},
			{Name: "hardened-guard-dropped", File: "wallet/derivation.go", Old: "\tif i < FirstHardenedIndex {\n\t\treturn nil, ErrNoPublicDerivation\n\t}\n", New: "", ExpectKeySub: "derive"},
			{Name: "nonce-not-stored", File: "wallet/keystore.go", Old: "\t\t\tAesNonce:   nonce,", New: "\t\t\tAesNonce:   nonce[:0],", ExpectKeySub: "AesNonce"},
			{Name: "wrong-password-returns-data", File: "wallet/keyfile.go", Old: "\tif err != nil {\n\t\treturn nil, ErrWrongPassword\n\t}\n\n\treturn keyStoreFromEntropy(entropy)", New: "\tif err != nil && len(entropy) == 0 {\n\t\treturn nil, ErrWrongPassword\n\t}\n\n\treturn keyStoreFromEntropy(entropy)", ExpectKeySub: "Decrypt"},
			{Name: "base-address-index-1", File: "wallet/keystore.go", Old: "ks.DeriveForIndexPath(0)", New: "ks.DeriveForIndexPath(1)", ExpectKeySub: "keyStoreFromEntropy"},
			{Name: "random-in-derivation", File: "wallet/derivation.go", Old: "\tif i < FirstHardenedIndex {\n\t\treturn nil, ErrNoPublicDerivation\n\t}\n", New: "\tif i < FirstHardenedIndex {\n\t\treturn nil, ErrNoPublicDerivation\n\t}\n\t_ = GetEntropyCSPRNG(1)\n", ExpectKeySub: "GetEntropyCSPRNG"},
		},
	})
}

func runC19(r *Run) {
	// KDF parameters
	r.Has("wallet.(*passwordHash).Set", "argon2.IDKey(a0,recv.salt,1,65536,4,32)", "argon2id(time=1, memory=64MiB, threads=4, keyLen=32) over the fresh salt")
	r.Has("wallet.(*passwordHash).SetFromJSON", "argon2.IDKey(a0,recv.salt,1,65536,4,32)", "the same KDF parameters when opening a file")
	r.Has("wallet.(*passwordHash).Set", "store recv.salt = wallet.GetEntropyCSPRNG(16)", "a fresh random salt per file")
	r.Has("wallet.(*passwordHash).SetFromJSON", "store recv.salt = a1.Salt", "the salt read from the file, unmodified")
	r.Has("wallet.(*passwordHash).Set", "copy(recv.password[:],argon2.IDKey(a0,recv.salt,1,65536,4,32)[:32])", "derived key kept")
	r.Has("wallet.(*passwordHash).SetFromJSON", "copy(recv.password[:],argon2.IDKey(a0,recv.salt,1,65536,4,32)[:32])", "derived key kept")
	// AEAD
	enc, dec := "wallet.aesGCMEncrypt", "wallet.aesGCMDecrypt"
	r.Alias("$gcm", "cipher.NewGCM(aes.NewCipher(a0)#0)#0")
	r.Has(enc, "$gcm.Seal(nil,wallet.GetEntropyCSPRNG(12),a1,\"zenon\")", "AES-256-GCM with a fresh 12-byte nonce and additional data \"zenon\"")
	r.Returns(enc, []string{"nil, nil, aes.NewCipher(a0)#1", "nil, nil, cipher.NewGCM(aes.NewCipher(a0)#0)#1", "$gcm.Seal(nil,wallet.GetEntropyCSPRNG(12),a1,\"zenon\"), wallet.GetEntropyCSPRNG(12), cipher.NewGCM(aes.NewCipher(a0)#0)#1"}, "the nonce returned is the nonce sealed with")
	r.CallCount(enc, "wallet.GetEntropyCSPRNG", 1, "one nonce: the one used is the one returned")
	r.Has(dec, "$gcm.Open(nil,a2,a1,\"zenon\")", "Open with the same additional data, the stored nonce, and a nil destination — the stored ciphertext buffer is never overwritten, so a key file can be decrypted (and written back) any number of times")
	r.Guards([]row{{F: dec, C: "ne($gcm.Open(nil,a2,a1,\"zenon\")#1,nil)", Why: "authentication failure yields no plaintext"}})
	r.Returns(dec, []string{"nil, aes.NewCipher(a0)#1", "nil, cipher.NewGCM(aes.NewCipher(a0)#0)#1", "nil, $gcm.Open(nil,a2,a1,\"zenon\")#1", "$gcm.Open(nil,a2,a1,\"zenon\")#0, $gcm.Open(nil,a2,a1,\"zenon\")#1"}, "plaintext only on the authenticated path")
	// file fields ↔ parameters
	ef := "wallet.(*KeyStore).Encrypt"
	r.Alias("$e", "wallet.aesGCMEncrypt(new(wallet.passwordHash).password[:],recv.Entropy)")
	r.Has(ef, "store new(wallet.KeyFile).Crypto.CipherData = $e#0", "the stored ciphertext is Seal's output over the entropy")
	r.Has(ef, "store new(wallet.KeyFile).Crypto.AesNonce = $e#1", "the stored nonce is the nonce sealed with")
	r.Has(ef, "store new(wallet.KeyFile).Crypto.Argon2Params.Salt = new(wallet.passwordHash).salt", "the stored salt is the salt the key was derived with")
	r.Has(ef, "store new(wallet.KeyFile).BaseAddress = recv.BaseAddress", "the recorded address is the key store's base address")
	r.Has(ef, "store new(wallet.KeyFile).Crypto.CipherName = \"aes-256-gcm\"", "cipher name checked on read")
	r.Has(ef, "store new(wallet.KeyFile).Crypto.KDF = \"argon2.IDKey\"", "kdf name checked on read")
	r.Has(ef, "store new(wallet.KeyFile).Version = 1", "version checked on read")
	df := "wallet.(*KeyFile).Decrypt"
	r.Alias("$d", "wallet.aesGCMDecrypt(new(wallet.passwordHash).password[:32],recv.Crypto.CipherData,recv.Crypto.AesNonce)")
	r.Has(df, "new(wallet.passwordHash).SetFromJSON(a0,recv.Crypto.Argon2Params)", "the key is re-derived from the password and the stored salt")
	r.Has(df, "$d", "ciphertext and nonce go to the matching parameters")
	r.Guards([]row{
		{F: df, C: "ne(nil,$d#1)", Why: "a failed authentication (wrong password or any change to ciphertext, nonce or salt) is refused"},
		{F: "wallet.ReadKeyFile", C: "ne(1,new(wallet.KeyFile).Version)", Why: "version must match"},
		{F: "wallet.ReadKeyFile", C: "ne(\"aes-256-gcm\",new(wallet.KeyFile).Crypto.CipherName)", Why: "cipher must match"},
		{F: "wallet.ReadKeyFile", C: "ne(\"argon2.IDKey\",new(wallet.KeyFile).Crypto.KDF)", Why: "kdf must match"},
	})
	r.Returns(df, []string{"nil, new(wallet.passwordHash).SetFromJSON(a0,recv.Crypto.Argon2Params)", "nil, wallet.ErrWrongPassword", "wallet.keyStoreFromEntropy($d#0)#0, wallet.keyStoreFromEntropy($d#0)#1"}, "the key store is rebuilt from exactly the decrypted entropy; nothing is returned on failure")
	// derivation
	r.Guards([]row{
		{F: "wallet.(*key).derive", C: "lt(a0,2147483648)", Why: "hardened derivation only: an index below 2^31 is refused"},
		{F: "wallet.DeriveForPath", C: "F(wallet.isValidPath(a0))", Why: "path syntax validated"},
		{F: "wallet.isValidPath", C: "F(wallet.pathRegex.MatchString(a0))", Why: "path syntax"},
		{F: "wallet.isValidPath", C: "ne(nil,strconv.ParseUint(strings.TrimRight(strings.Split(a0,\"/\")[1:][iter],\"'\"),10,32)#1)", Why: "each segment fits 32 bits"},
		{F: "wallet.keyStoreFromEntropy", C: "ne(bip39.NewMnemonic(a0)#1,nil)", Why: "invalid entropy refused"},
		{F: "wallet.keyStoreFromEntropy", C: "ne(new(wallet.KeyStore).DeriveForIndexPath(0)#2,nil)", Why: "derivation failure refused"},
	})
	r.HasPrefix("wallet.DeriveForPath", "iter(wallet.newMasterKey(a1)#0).derive((conv:uint32(strconv.ParseUint(strings.TrimRight(strings.Split(a0,\"/\")[1:][iter],\"'\"),10,32)#0)+2147483648))", "every path segment is derived hardened (offset 2^31 added)")
	ks := "wallet.keyStoreFromEntropy"
	r.Has(ks, "store new(wallet.KeyStore).Entropy = a0", "entropy kept as given")
	r.Has(ks, "store new(wallet.KeyStore).Mnemonic = bip39.NewMnemonic(a0)#0", "mnemonic is a function of the entropy")
	r.Has(ks, "store new(wallet.KeyStore).Seed = bip39.NewSeed(bip39.NewMnemonic(a0)#0,\"\")", "seed is a function of the mnemonic (empty passphrase)")
	r.Has(ks, "store new(wallet.KeyStore).BaseAddress = new(wallet.KeyStore).DeriveForIndexPath(0)#1.Address", "the base address is the address of derivation index 0")
	r.Returns("wallet.(*KeyStore).DeriveForIndexPath", []string{"recv.DeriveForFullPath(fmt.Sprintf(\"m/44'/73404'/%d'\",list(a0)))#0, recv.DeriveForFullPath(fmt.Sprintf(\"m/44'/73404'/%d'\",list(a0)))#1, recv.DeriveForFullPath(fmt.Sprintf(\"m/44'/73404'/%d'\",list(a0)))#2"}, "index i maps to the hardened path m/44'/73404'/i'")
	tk := "wallet.(key).toKeyPair"
	r.Has(tk, "ed25519.GenerateKey(bytes.NewReader(recv.Key))", "the key pair is generated deterministically from the derived key bytes")
	r.Has(tk, "store new(wallet.KeyPair).Address = types.PubKeyToAddress(ed25519.GenerateKey(bytes.NewReader(recv.Key))#0)", "the address is derived from the public key of that pair")
	r.Has(tk, "store new(wallet.KeyPair).Public = ed25519.GenerateKey(bytes.NewReader(recv.Key))#0", "public key of that pair")
	r.Has(tk, "store new(wallet.KeyPair).Private = ed25519.GenerateKey(bytes.NewReader(recv.Key))#1", "private key of that pair")
	r.Returns("wallet.VerifySignature", []string{"false, errors.Errorf(…)", "ed25519.Verify(a0,a1,a2), nil"}, "verification is ed25519.Verify(public key, message, signature)")
	// no randomness / clock on the deterministic side
	reg := r.Region("DERIVE", []string{"wallet.keyStoreFromEntropy", "wallet.DeriveForPath", "wallet.newMasterKey", "wallet.(*key).derive", "wallet.(key).toKeyPair", "wallet.(*KeyFile).Decrypt", "wallet.(*KeyStore).DeriveForFullPath", "wallet.(*KeyStore).DeriveForIndexPath"}, false)
	r.Determinism("DERIVE", reg, map[string]string{}, "mnemonic, seed, key pairs and addresses are a deterministic function of entropy and index")
	r.WhoMayCall("OS randomness in wallet", []string{"wallet.GetEntropyCSPRNG"}, []string{"wallet.aesGCMEncrypt", "wallet.(*passwordHash).Set", "wallet.NewKeyStore*", "wallet.(*Manager).*", "pow.*", "rpc/*", "cmd/*", "app/*", "vm/embedded/tests*"}, "fresh randomness is drawn only when creating (nonce, salt, new entropy), never when deriving or decrypting")
}
