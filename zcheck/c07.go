package main

import (
	"fmt"
	"strings"
)

// C07 — versioned store: a view at commit X shows exactly the state as of X.

func init() {
	register(&propDef{
		ID: "C07",
		Explain: "Structural necessary conditions: (1) K10 presence/tombstone encoding agreement between the writers (enableDeleteDB.Put/Delete, patchApplierWO.Put/Delete) and the readers (enableDeleteDB.Get/Has, enableDeleteIterator.Value, enableDeletePatch.Put, skipDeletedIterator.Next): 'absent' must be written as a zero-length value and classified by len==0 everywhere (two sites deviate: known finding D3); " +
			"(2) K4 the commit layer's parent check compares the commit's parent with a frontier read from the store itself (not derived from the parent), for both managers, and the refusal path performs no write; (3) K4+K1 view isolation: every view handed out has a fresh in-memory first layer, merged Put writes only layer 0, snapshot layers are read-only (Put panics), the shared undo overlay is only extended without override; " +
			"(4) K6 lockset: ldbManager.{ldb,l1Cache,l2Cache,stopped} and memdbManager.{frontierIdentifier,previous,versions,patches} only under the manager mutex (named exceptions); (5) the undo-overlay caches are purged on every successful Pop and a cached overlay is only ever extended from its recorded frontier.",
		NotDec: "equivalence with a map-per-version model for all operation sequences; merged-iterator ordering; behaviour under arbitrary concurrent interleavings (only lock discipline is decided).",
		Run:    runC07,
		Controls: []control{
			{Name: "self-referential-parent-check", File: "common/db/versioned_db.go", Old: "\tsnapshot, err := m.ldb.GetSnapshot()\n\tif err != nil {\n\t\treturn err\n\t}\n\tfrontierIdentifier := GetFrontierIdentifier(NewLevelDBSnapshotWrapper(snapshot).Subset(frontierByte))\n\tsnapshot.Release()\n\n\tif previous == frontierIdentifier {", New: "\tfrontierIdentifier := GetFrontierIdentifier(db)\n\n\tif previous == frontierIdentifier {", ExpectKeySub: "parent"},
			{Name: "purge-removed", File: "common/db/versioned_db.go", Old: "\tm.l1Cache.Purge()\n", New: "", ExpectKeySub: "l1Cache.Purge"},
			{Name: "getpatch-unlocked", File: "common/db/versioned_db.go", Old: "func (m *ldbManager) GetPatch(identifier types.HashHeight) Patch {\n\tm.changes.Lock()\n\tdefer m.changes.Unlock()\n", New: "func (m *ldbManager) GetPatch(identifier types.HashHeight) Patch {\n", ExpectKeySub: "K6-lockset"},
			{Name: "merged-put-last-layer", File: "common/db/merged.go", Old: "return u.dbs[0].Put(key, value)", New: "return u.dbs[len(u.dbs)-1].Put(key, value)", ExpectKeySub: "mergedDB).Put"},
			{Name: "get-treats-one-byte-absent", File: "common/db/enable_delete.go", Old: "\tif len(data) == 0 {\n\t\treturn nil, leveldb.ErrNotFound\n\t}\n\treturn data[1:], nil", New: "\tif len(data) <= 1 {\n\t\treturn nil, leveldb.ErrNotFound\n\t}\n\treturn data[1:], nil", ExpectKeySub: "K10-tombstone"},
			{Name: "overlay-overrides", File: "common/db/patch.go", Old: "\t} else if !ok {\n\t\tpa.err = pa.db.Put(key, common.JoinBytes([]byte{0}, value))\n\t}", New: "\t} else if !ok || len(value) > 0 {\n\t\tpa.err = pa.db.Put(key, common.JoinBytes([]byte{0}, value))\n\t}", ExpectKeySub: "patchApplierWO).Put"},
			{Name: "memdb-pop-past-stable", File: "common/db/versioned_db.go", Old: "\tif m.stableIdentifier == m.frontierIdentifier {\n\t\treturn errors.Errorf(\"can't rollback stable db\")\n\t}\n", New: "", ExpectKeySub: "stableIdentifier"},
			{Name: "snapshot-shares-layer", File: "common/db/enable_delete.go", Old: "return enableDelete(newMergedDb([]db{newMemDBInternal(), d.db}))", New: "return enableDelete(newMergedDb([]db{d.db}))", ExpectKeySub: "Snapshot"},
		},
	})
}

// tombstoneAgreement: K10. Reference classification: zero-length value = absent, length >= 1 = present
// (five of the seven sites implement it).
func tombstoneAgreement(r *Run) {
	const rule = "K10-tombstone"
	why := "writers and readers of the presence encoding must classify the same byte strings the same way, or a key that is absent at a version reads as present (and vice versa)"
	absentWriters := map[string]string{ // function → canonical Put call that must carry a zero-length value
		"common/db.(*enableDeleteDB).Delete": "recv.db.Put(a0,new([0]byte)[:])",
		"common/db.(*patchApplierWO).Delete": "recv.db.Put(a0,new([0]byte)[:])",
	}
	for fn, want := range absentWriters {
		f := r.fn(fn)
		if f == nil {
			continue
		}
		file, line := r.P.FnPos(f)
		var puts []string
		for _, e := range r.P.Effects(f) {
			if e.Kind == "call" && strings.HasPrefix(e.Canon, "recv.db.Put(") {
				puts = append(puts, e.Canon)
				file, line = e.File, e.Line
			}
		}
		if len(puts) == 1 && puts[0] == want {
			r.pass(rule, fn, "absent written as zero-length value", "", why, file, line)
		} else {
			r.viol(rule, fn, "absent written as zero-length value", fmt.Sprintf("%s marks a key absent with `%s`; the readers (enableDeleteDB.Get/Has, iterator.Value, enableDeletePatch.Put) treat only a zero-length value as absent, so this key reads as present with an empty value", fn, strings.Join(puts, " ; ")), why, file, line)
		}
	}
	presentWriters := map[string]string{
		"common/db.(*enableDeleteDB).Put": "recv.db.Put(a0,common.JoinBytes(list(db.existsByte,a1)))",
		"common/db.(*patchApplierWO).Put": "recv.db.Put(a0,common.JoinBytes(list(list(0),a1)))",
	}
	for fn, want := range presentWriters {
		if f := r.fn(fn); f != nil {
			r.Has(fn, want, "present is written as one marker byte followed by the value (length >= 1)")
		}
	}
	readers := map[string]string{ // function → the branch that classifies absence
		"common/db.(*enableDeleteDB).Get":         "eq(0,len(recv.db.Get(a0)#0))",
		"common/db.(*enableDeleteDB).Has":         "eq(0,len(recv.db.Get(a0)#0))",
		"common/db.(*enableDeleteIterator).Value": "eq(0,len(recv.StorageIterator.Value()))",
		"common/db.(*enableDeletePatch).Put":      "eq(0,len(a1))",
		"common/db.(*skipDeletedIterator).Next":   "eq(0,len(recv.StorageIterator.Value()))",
	}
	for fn, want := range readers {
		f := r.fn(fn)
		if f == nil {
			continue
		}
		file, line := r.P.FnPos(f)
		found := false
		var lenConds []string
		for _, g := range r.P.Info(f).guards {
			c := g.Cond.String()
			if strings.Contains(c, "len(") {
				lenConds = append(lenConds, c)
				file, line = g.File, g.Line
			}
			if c == want || g.Cond.Negate().String() == want {
				found = true
			}
		}
		if found && len(lenConds) == 1 {
			r.pass(rule, fn, "absent classified by len==0", "", why, file, line)
		} else {
			r.viol(rule, fn, "absent classified by len==0", fmt.Sprintf("%s classifies presence by `%s` instead of len==0: it disagrees with the other readers/writers on values of length 0 or 1 (a present empty value, or the overlay's one-byte tombstone)", fn, strings.Join(lenConds, " ; ")), why, file, line)
		}
	}
	r.Returns("common/db.(*enableDeleteDB).Get", []string{"nil, recv.db.Get(a0)#1", "nil, leveldb.ErrNotFound", "recv.db.Get(a0)#0[1:], nil"}, "a present value is returned without its marker byte")
	r.Returns("common/db.(*enableDeleteIterator).Value", []string{"nil", "recv.StorageIterator.Value()[1:]"}, "iteration strips the marker byte")
	r.Has("common/db.(*enableDeletePatch).Put", "recv.p.Put(a0,a1[1:])", "the reported change set carries the value without the marker")
	r.OnCondMustCall("common/db.(*enableDeletePatch).Put", "eq(0,len(a1))", ".Delete", "a zero-length write is reported as a delete")
}

// viewIsolationRules: how a historical view is reconstructed (shared by C07 and C02 — a syncing node
// evaluates every block through exactly these views).
func viewIsolationRules(r *Run) {
	r.Alias("$front", "db.GetFrontierIdentifier(db.NewLevelDBSnapshotWrapper(recv.ldb.GetSnapshot()#0).Subset(db.frontierByte))")
	r.Returns("common/db.(*mergedDB).Put", []string{"recv.dbs[0].Put(a0,a1)"}, "writes through a merged view land in its first (private) layer only")
	r.Returns("common/db.(*mergedDB).changesInternal", []string{"recv.dbs[0].changesInternal(a0)#0, recv.dbs[0].changesInternal(a0)#1"}, "the change set reported by a view is exactly its private layer")
	r.Returns("common/db.(*enableDeleteDB).Snapshot", []string{"db.enableDelete(db.newMergedDb(list(db.newMemDBInternal(),recv.db)))"}, "a snapshot gets a fresh private layer over its parent")
	r.Returns("common/db.NewLevelDBSnapshotWrapper", []string{"db.enableDelete(db.newMergedDb(list(db.newMemDBInternal(),new(db.levelDBROWrapper))))"}, "a frontier view is a fresh private layer over a read-only snapshot")
	r.Returns("common/db.newLevelDBSnapshotWrapper", []string{"db.newMergedDb(list(db.newMemDBInternal(),new(db.levelDBROWrapper)))"}, "same for the internal form")
	r.PanicsAlways("common/db.(*levelDBROWrapper).Put", "snapshot layers are read-only")
	get := "common/db.(*ldbManager).Get"
	r.Alias("$raw", "phi(db.newMemDBInternal()|recv.l1Cache.Get(a0)#0.(*db.rollbackCache).raw|recv.l2Cache.Get(a0)#0.(*db.rollbackCache).raw)")
	r.Has(get, "db.enableDelete(db.newMergedDb(list(db.newMemDBInternal(),db.newSkipDelete(db.newMergedDb(list($raw,db.newSubDB(db.frontierByte,db.newLevelDBSnapshotWrapper(recv.ldb.GetSnapshot()#0))))))))", "a historical view = fresh private layer over (undo overlay over the frontier snapshot)")
	r.HasPrefix(get, "db.ApplyWithoutOverride($raw,recv.getRollback(iter(", "the overlay is extended with the undo record of each later height, oldest first, never overriding what an earlier (closer) undo recorded")
	r.Branch(get, "le(iter((phi(a0|recv.l1Cache.Get(a0)#0.(*db.rollbackCache).frontier|recv.l2Cache.Get(a0)#0.(*db.rollbackCache).frontier).Height+1)),$front.Height)", "undo records are applied up to the frontier")
	r.Branch(get, "ne(a0,db.GetIdentifierByHash(db.NewLevelDBSnapshotWrapper(recv.ldb.GetSnapshot()#0).Subset(db.frontierByte),a0.Hash)#0)", "an identifier that is not on this chain (same hash, other height) has no view")
	r.Branch(get, "eq(a0,$front)", "the frontier itself needs no overlay")
	r.Has(get, "store new(db.rollbackCache).frontier = $front", "a cached overlay records the frontier it was built up to")
	r.Has(get, "store new(db.rollbackCache).raw = $raw", "the cached overlay is the one that was extended")
	wo := "common/db.(*patchApplierWO)"
	for _, m := range []string{".Put", ".Delete"} {
		r.OnlyUnder(wo+m, "F(recv.db.Has(a0)#0)", ".Put", "the shared overlay is only extended: a key already recorded by a closer undo is never overridden")
		r.Branch(wo+m, "ne(nil,recv.db.Has(a0)#1)", "lookup errors are kept")
	}
	r.Has("common/db.(*patchRollback).rollback", "recv.rb.Put(a0,recv.db.Get(a0)#0)", "the undo record of a key is its value in the pre-state view")
	r.OnCondMustCall("common/db.(*patchRollback).rollback", "eq(leveldb.ErrNotFound,recv.db.Get(a0)#1)", ".Delete", "a key absent in the pre-state is undone by a delete")
	r.Has("common/db.(*patchRollback).Put", "recv.rollback(a0)", "puts are undone from the pre-state")
	r.Has("common/db.(*patchRollback).Delete", "recv.rollback(a0)", "deletes are undone from the pre-state")
	r.Has("common/db.RollbackPatch", "store new(db.patchRollback).db = a0", "the undo is computed against the given pre-state view")

}

func runC07(r *Run) {
	r.CacheInventory([]string{"common/db"}, cacheTriage, "a view must not depend on what was memoised before a rollback or for another identifier")
	tombstoneAgreement(r)

	// (2) parent check
	add := "common/db.(*ldbManager).Add"
	r.Alias("$prev", "a0.GetCommits()[0].Previous()")
	r.Alias("$front", "db.GetFrontierIdentifier(db.NewLevelDBSnapshotWrapper(recv.ldb.GetSnapshot()#0).Subset(db.frontierByte))")
	if f := r.fn(add); f != nil {
		file, line := r.P.FnPos(f)
		ok := false
		var conds []string
		for _, g := range r.P.Info(f).guards {
			c := g.Cond.String()
			if strings.HasPrefix(c, "eq("+r.X("$prev")+",") || strings.HasPrefix(c, "ne("+r.X("$prev")+",") {
				conds = append(conds, c)
				other := strings.TrimSuffix(strings.TrimPrefix(c[3:], r.X("$prev")+","), ")")
				file, line = g.File, g.Line
				if !strings.Contains(other, r.X("$prev")) && !strings.Contains(other, "recv.Get(") && strings.Contains(other, "recv.ldb.GetSnapshot()") {
					ok = true
				}
			}
		}
		if ok {
			r.pass("K4-self-referential-guard", add, "parent vs store frontier", "the frontier compared with the parent is read from the store's own snapshot", "a commit is accepted only on top of the current frontier", file, line)
		} else {
			r.viol("K4-self-referential-guard", add, "parent vs store frontier", fmt.Sprintf("the parent check of %s compares the parent with a value derived from the parent itself (or not from the store): %s — it can never refuse a stale parent", add, strings.Join(conds, " ; ")), "a commit is accepted only on top of the current frontier", file, line)
		}
	}
	r.OnlyUnder(add, "eq($prev,$front)", ldbDB+".Write", "any other parent is refused without changing the store")
	r.CallsUnderLock(add, "changes", ldbDB+".GetSnapshot", "the frontier is read and the commit written in one critical section")
	r.Guards([]row{
		{F: "common/db.(*memdbManager).Add", C: "ne($prev,recv.frontierIdentifier)", Pre: []string{".Apply"}, Why: "the in-memory manager refuses any parent other than its frontier before touching anything"},
		{F: "common/db.(*memdbManager).Add", C: "eq(nil,recv.Get($prev))", Pre: []string{".Apply"}, Why: "unknown parent refused"},
		{F: "common/db.(*memdbManager).Pop", C: "eq(recv.frontierIdentifier,recv.stableIdentifier)", Pre: []string{"builtin:delete"}, Why: "confirmed (stable) state can never be popped from a pool manager"},
		{F: "common/db.(*memdbManager).Pop", C: "F(recv.previous[recv.frontierIdentifier]#1)", Pre: []string{"builtin:delete"}, Why: "pop follows the recorded parent link"},
		{F: add, C: "eq(nil,recv.Get($prev))", Why: "unknown parent refused"},
	})
	r.Has("common/db.(*memdbManager).Pop", "store recv.frontierIdentifier = recv.previous[recv.frontierIdentifier]#0", "pop restores the recorded parent as frontier")
	r.Alias("$id", "a0.GetCommits()[(len(a0.GetCommits())-1)].Identifier()")
	r.Has("common/db.(*memdbManager).Add", "store recv.previous[$id] = $prev", "the parent link of the new head is recorded")
	r.Has("common/db.(*memdbManager).Add", "store recv.frontierIdentifier = a0.GetCommits()[(len(a0.GetCommits())-1)].Identifier()", "the new head becomes the frontier")

	viewIsolationRules(r)
	patchOrderRules(r) // what a view reports as its change set

	// (4) lock discipline
	r.Lockset("common/db", "ldbManager", "changes", []string{"ldb", "l1Cache", "l2Cache", "stopped"}, []string{"getPatch", "getRollback"}, nil,
		"the store handle and the overlay caches are shared between the chain writer and every reader")
	r.Lockset("common/db", "memdbManager", "changes", []string{"frontierIdentifier", "previous", "versions", "patches"}, nil, map[string]string{
		"Add":  "reads frontierIdentifier before taking the lock: every caller (accountPool.addAccountBlockTransaction/rebuild) runs under accountPool.changes, which serialises all writers of one pool manager; the writes below are under the lock",
		"Stop": "called once at shutdown after the pools are quiesced",
	}, "pool managers are read by RPC and the producer while the chain writes")

	// (5) caches
	pop := "common/db.(*ldbManager).Pop"
	r.Always(pop, "recv.l1Cache.Purge()", "cached undo overlays were built from the history being rewound")
	r.Always(pop, "recv.l2Cache.Purge()", "cached undo overlays were built from the history being rewound")
	r.CallsUnderLock(pop, "changes", "(*github.com/hashicorp/golang-lru.Cache).Purge", "no reader can repopulate the cache between the write and the purge")
}
