package main

import (
	"crypto/sha256"
	"encoding/hex"
	"math/big"
	"fmt"
	"go/token"
	"go/types"
	"sort"
	"strings"

	"golang.org/x/tools/go/ssa"
)

// ---------------------------------------------------------------------------------------------
// Exit classification

var errorType = types.Universe.Lookup("error").Type()

func isErrorType(t types.Type) bool { return types.Identical(t, errorType) }

// errResultIndex returns the index of the last result of type error, or -1.
func errResultIndex(sig *types.Signature) int {
	r := sig.Results()
	for i := r.Len() - 1; i >= 0; i-- {
		if isErrorType(r.At(i).Type()) {
			return i
		}
	}
	return -1
}

// FuncInfo caches per-function CFG facts.
type FuncInfo struct {
	prog     *Prog
	fn       *ssa.Function
	env      *pathEnv
	failKind string // "error" | "false" | "panic"
	okBlock  map[*ssa.BasicBlock]bool // blocks ending in a success exit
	failExit map[*ssa.BasicBlock]bool
	canOK    map[*ssa.BasicBlock]bool // some success exit reachable
	guards   []*Guard
}

var infoCache = map[*ssa.Function]*FuncInfo{}

func (p *Prog) Info(fn *ssa.Function) *FuncInfo {
	if fi, ok := infoCache[fn]; ok {
		return fi
	}
	fi := &FuncInfo{prog: p, fn: fn, env: p.Env(fn)}
	infoCache[fn] = fi
	fi.classifyExits()
	fi.collectGuards()
	return fi
}

var alwaysNonNilMemo = map[*ssa.Function]int{} // 0 unknown/in progress, 1 yes, 2 no

// alwaysNonNilErr: every return of f yields a non-nil error (error constructors and wrappers).
func (p *Prog) alwaysNonNilErr(f *ssa.Function) bool {
	if f == nil {
		return false
	}
	switch alwaysNonNilMemo[f] {
	case 1:
		return true
	case 2:
		return false
	}
	if f.Blocks == nil {
		full := f.String()
		switch full {
		case "errors.New", "fmt.Errorf":
			return true
		}
		return false
	}
	if o := f.Object(); o != nil && o.Pkg() != nil {
		switch o.Pkg().Path() + "." + f.Name() {
		case "errors.New", "fmt.Errorf", "github.com/pkg/errors.New", "github.com/pkg/errors.Errorf":
			alwaysNonNilMemo[f] = 1
			return true
		case "github.com/pkg/errors.Wrap", "github.com/pkg/errors.Wrapf", "github.com/pkg/errors.WithStack", "github.com/pkg/errors.WithMessage":
			alwaysNonNilMemo[f] = 2
			return false
		}
	}
	ei := errResultIndex(f.Signature)
	if ei < 0 {
		alwaysNonNilMemo[f] = 2
		return false
	}
	alwaysNonNilMemo[f] = 2 // recursion guard: assume no
	ok := true
	any := false
	for _, b := range f.Blocks {
		if len(b.Instrs) == 0 {
			continue
		}
		if r, isRet := b.Instrs[len(b.Instrs)-1].(*ssa.Return); isRet {
			any = true
			if ei >= len(r.Results) || !p.nonNilErr(retOperand(r, ei), b, 0) {
				ok = false
			}
		}
	}
	if ok && any {
		alwaysNonNilMemo[f] = 1
		return true
	}
	return false
}

// nonNilErr: v (of type error) is provably non-nil when control is in block at.
func (p *Prog) nonNilErr(v ssa.Value, at *ssa.BasicBlock, depth int) bool {
	if depth > 6 {
		return false
	}
	switch x := v.(type) {
	case *ssa.Const:
		return false
	case *ssa.ChangeInterface:
		// ErrX (of an error-like interface type) = constructor(...), never reassigned
		if u, ok := x.X.(*ssa.UnOp); ok && u.Op == token.MUL {
			if g, ok := u.X.(*ssa.Global); ok && g.Pkg != nil {
				key := g.Pkg.Pkg.Name() + "." + g.Name()
				gf := p.globals()
				if len(gf.writers[key]) == 0 {
					switch gf.initVal[key].(type) {
					case *ssa.Call, *ssa.Alloc, *ssa.MakeInterface:
						return true
					}
				}
			}
		}
		return p.nonNilErr(x.X, at, depth+1)
	case *ssa.MakeInterface:
		// a concrete non-pointer value, or a freshly allocated pointer
		switch x.X.(type) {
		case *ssa.Alloc:
			return true
		}
		if _, isPtr := x.X.Type().Underlying().(*types.Pointer); !isPtr {
			return true
		}
		// a package-level error object of a concrete pointer type (ErrX = NewErrorWCode(...)) that is
		// initialised once by a constructor and never reassigned
		if u, ok := x.X.(*ssa.UnOp); ok && u.Op == token.MUL {
			if g, ok := u.X.(*ssa.Global); ok && g.Pkg != nil {
				key := g.Pkg.Pkg.Name() + "." + g.Name()
				gf := p.globals()
				if len(gf.writers[key]) == 0 {
					switch gf.initVal[key].(type) {
					case *ssa.Call, *ssa.Alloc:
						return true
					}
				}
			}
		}
		if c, ok := x.X.(*ssa.Call); ok {
			_ = c
		}
		return false
	case *ssa.UnOp:
		if x.Op == token.MUL {
			if g, ok := x.X.(*ssa.Global); ok && isErrorType(g.Type().(*types.Pointer).Elem()) {
				return true // package-level sentinel error (initialised, never nil by convention)
			}
		}
	case *ssa.Call:
		if f := x.Call.StaticCallee(); f != nil && p.alwaysNonNilErr(f) {
			return true
		}
	case *ssa.Phi:
		if len(x.Edges) == 0 {
			return false
		}
		for i, e := range x.Edges {
			pred := x.Block().Preds[i]
			if !p.nonNilErr(e, pred, depth+1) {
				return false
			}
		}
		return true
	case *ssa.Extract, *ssa.Parameter:
	}
	// dominated by the non-nil edge of a comparison of the same value
	if at == nil {
		return false
	}
	return p.onNonNilEdge(v, at)
}

// onNonNilEdge: block at is reachable only through the "v != nil" (or v == sentinel) edge of an If.
func (p *Prog) onNonNilEdge(v ssa.Value, at *ssa.BasicBlock) bool {
	fn := at.Parent()
	for _, b := range fn.Blocks {
		if len(b.Instrs) == 0 {
			continue
		}
		ifi, ok := b.Instrs[len(b.Instrs)-1].(*ssa.If)
		if !ok {
			continue
		}
		bo, ok := ifi.Cond.(*ssa.BinOp)
		if !ok || (bo.Op != token.NEQ && bo.Op != token.EQL) {
			continue
		}
		var other ssa.Value
		if sameValue(bo.X, v) {
			other = bo.Y
		} else if sameValue(bo.Y, v) {
			other = bo.X
		} else {
			continue
		}
		var nonNilSucc *ssa.BasicBlock
		if c, isC := other.(*ssa.Const); isC && c.Value == nil {
			if bo.Op == token.NEQ {
				nonNilSucc = b.Succs[0]
			} else {
				nonNilSucc = b.Succs[1]
			}
		} else if isSentinelLoad(other) && bo.Op == token.EQL {
			nonNilSucc = b.Succs[0]
		} else {
			continue
		}
		if edgeDominates(b, nonNilSucc, at) {
			return true
		}
	}
	return false
}

func isSentinelLoad(v ssa.Value) bool {
	if mi, ok := v.(*ssa.MakeInterface); ok {
		v = mi.X
	}
	u, ok := v.(*ssa.UnOp)
	if !ok || u.Op != token.MUL {
		return false
	}
	g, ok := u.X.(*ssa.Global)
	return ok && isErrorType(g.Type().(*types.Pointer).Elem())
}

func sameValue(a, b ssa.Value) bool {
	if a == b {
		return true
	}
	// look through interface conversions
	if mi, ok := a.(*ssa.ChangeInterface); ok {
		return sameValue(mi.X, b)
	}
	if mi, ok := b.(*ssa.ChangeInterface); ok {
		return sameValue(a, mi.X)
	}
	return false
}

// edgeDominates: every path from entry to target uses the edge from->to.
func edgeDominates(from, to, target *ssa.BasicBlock) bool {
	fn := from.Parent()
	if len(fn.Blocks) == 0 {
		return false
	}
	// reachability from entry with edge removed
	seen := map[*ssa.BasicBlock]bool{}
	var stack []*ssa.BasicBlock
	stack = append(stack, fn.Blocks[0])
	seen[fn.Blocks[0]] = true
	if fn.Recover != nil {
		// the recover block is entered only after a panic; ignore
	}
	for len(stack) > 0 {
		b := stack[len(stack)-1]
		stack = stack[:len(stack)-1]
		if b == target {
			return false
		}
		for i, s := range b.Succs {
			if b == from && s == to && !otherEdgeSame(b, i) {
				continue
			}
			if !seen[s] {
				seen[s] = true
				stack = append(stack, s)
			}
		}
	}
	// target unreachable without the edge; it must be reachable with it
	return true
}

// otherEdgeSame: both successors of an If are the same block (degenerate).
func otherEdgeSame(b *ssa.BasicBlock, i int) bool {
	if len(b.Succs) == 2 && b.Succs[0] == b.Succs[1] {
		return true
	}
	return false
}

func lastInstr(b *ssa.BasicBlock) ssa.Instruction {
	if len(b.Instrs) == 0 {
		return nil
	}
	return b.Instrs[len(b.Instrs)-1]
}

// isNoReturnCall recognises calls that never return normally.
func (p *Prog) isNoReturnCall(c *ssa.CallCommon) bool {
	f := c.StaticCallee()
	if f == nil {
		return false
	}
	switch f.String() {
	case "os.Exit", "log.Fatal", "log.Fatalf", "log.Panic", "log.Panicf", "runtime.Goexit":
		return true
	}
	return false
}

// retOperand resolves the i-th result of a Return. With defer+recover and named results go/ssa
// spills: the return stores into the result variables, runs the defers and returns loads of the
// variables. The value that the (non-panicking) path returns is the one stored in the same block.
func retOperand(ret *ssa.Return, i int) ssa.Value {
	v := ret.Results[i]
	u, ok := v.(*ssa.UnOp)
	if !ok || u.Op != token.MUL {
		return v
	}
	a, ok := u.X.(*ssa.Alloc)
	if !ok {
		return v
	}
	b := ret.Block()
	for j := len(b.Instrs) - 1; j >= 0; j-- {
		if st, ok := b.Instrs[j].(*ssa.Store); ok && st.Addr == a {
			return st.Val
		}
	}
	// a bare `return` in a function with named results: value set earlier; look in the unique
	// predecessor chain
	for p := b; len(p.Preds) == 1; {
		p = p.Preds[0]
		for j := len(p.Instrs) - 1; j >= 0; j-- {
			if st, ok := p.Instrs[j].(*ssa.Store); ok && st.Addr == a {
				return st.Val
			}
		}
	}
	return v
}

func (fi *FuncInfo) classifyExits() {
	fn := fi.fn
	fi.okBlock = map[*ssa.BasicBlock]bool{}
	fi.failExit = map[*ssa.BasicBlock]bool{}
	fi.canOK = map[*ssa.BasicBlock]bool{}
	ei := errResultIndex(fn.Signature)
	res := fn.Signature.Results()
	boolRes := ei < 0 && res.Len() >= 1 && isBool(res.At(res.Len()-1).Type())
	fi.failKind = "panic"
	if ei >= 0 {
		fi.failKind = "error"
	} else if boolRes {
		fi.failKind = "false"
	}
	for _, b := range fn.Blocks {
		switch x := lastInstr(b).(type) {
		case *ssa.Return:
			fail := false
			if ei >= 0 && ei < len(x.Results) {
				fail = fi.prog.nonNilErr(retOperand(x, ei), b, 0)
			} else if boolRes {
				if c, ok := retOperand(x, len(x.Results)-1).(*ssa.Const); ok && c.Value != nil && c.Value.String() == "false" {
					fail = true
				}
			}
			if fail {
				fi.failExit[b] = true
			} else {
				fi.okBlock[b] = true
			}
		case *ssa.Panic:
			fi.failExit[b] = true
		default:
			// a block ending in a call that never returns
		}
		for _, in := range b.Instrs {
			if c, ok := in.(*ssa.Call); ok && fi.prog.isNoReturnCall(&c.Call) {
				fi.failExit[b] = true
				delete(fi.okBlock, b)
			}
		}
	}
	// named results + defer/recover: returns are spilled; go/ssa still emits Return with loads.
	// backward reachability from ok blocks
	var work []*ssa.BasicBlock
	for b := range fi.okBlock {
		fi.canOK[b] = true
		work = append(work, b)
	}
	for len(work) > 0 {
		b := work[len(work)-1]
		work = work[:len(work)-1]
		for _, pr := range b.Preds {
			if fi.failExit[pr] && lastIsNoReturn(fi, pr) {
				continue
			}
			if !fi.canOK[pr] {
				fi.canOK[pr] = true
				work = append(work, pr)
			}
		}
	}
}

func lastIsNoReturn(fi *FuncInfo, b *ssa.BasicBlock) bool {
	for _, in := range b.Instrs {
		if c, ok := in.(*ssa.Call); ok && fi.prog.isNoReturnCall(&c.Call) {
			return true
		}
	}
	return false
}

func isBool(t types.Type) bool {
	b, ok := t.Underlying().(*types.Basic)
	return ok && b.Kind() == types.Bool
}

// ---------------------------------------------------------------------------------------------
// Guards

// Cond is a normalised condition: Op over operand paths.
// Ops: eq ne lt le (gt/ge are rewritten by swapping), T (predicate true), F (predicate false).
type Cond struct {
	Op   string
	L, R *Path
}

func (c Cond) String() string {
	if c.Op == "T" || c.Op == "F" {
		return c.Op + "(" + c.L.String() + ")"
	}
	c = c.normInt()
	return c.Op + "(" + c.L.String() + "," + c.R.String() + ")"
}

func intConstPath(p *Path) (*big.Int, bool) {
	if p == nil || p.Kind != "const" || p.Name == "" {
		return nil, false
	}
	for i, ch := range p.Name {
		if (ch < '0' || ch > '9') && !(i == 0 && ch == '-' && len(p.Name) > 1) {
			return nil, false
		}
	}
	n, ok := new(big.Int).SetString(p.Name, 10)
	return n, ok
}

// normInt gives integer comparisons against a constant one spelling: `x <= c` is `x < c+1`,
// `c <= x` is `c-1 < x`; for lengths `len(x) < 1` is `len(x) == 0` and `0 < len(x)` is `len(x) != 0`.
func (c Cond) normInt() Cond {
	if c.Op == "le" {
		if n, ok := intConstPath(c.R); ok {
			c = Cond{"lt", c.L, &Path{Kind: "const", Name: new(big.Int).Add(n, big.NewInt(1)).String()}}
		} else if n, ok := intConstPath(c.L); ok {
			c = Cond{"lt", &Path{Kind: "const", Name: new(big.Int).Sub(n, big.NewInt(1)).String()}, c.R}
		}
	}
	if c.Op == "lt" {
		isLen := func(p *Path) bool { return p != nil && p.Kind == "call" && (p.Name == "len" || p.Name == "cap") }
		if n, ok := intConstPath(c.R); ok && n.Cmp(big.NewInt(1)) == 0 && isLen(c.L) {
			return Cond{"eq", zeroPath, c.L}.canon()
		}
		if n, ok := intConstPath(c.L); ok && n.Sign() == 0 && isLen(c.R) {
			return Cond{"ne", zeroPath, c.R}.canon()
		}
	}
	return c
}

func (c Cond) Negate() Cond {
	switch c.Op {
	case "eq":
		return Cond{"ne", c.L, c.R}
	case "ne":
		return Cond{"eq", c.L, c.R}
	case "lt": // !(L<R) = R<=L
		return Cond{"le", c.R, c.L}
	case "le": // !(L<=R) = R<L
		return Cond{"lt", c.R, c.L}
	case "T":
		return Cond{"F", c.L, nil}
	case "F":
		return Cond{"T", c.L, nil}
	}
	return c
}

func (c Cond) Subst(args []*Path, hasRecv bool) Cond {
	n := Cond{Op: c.Op, L: c.L.Subst(args, hasRecv)}
	if c.R != nil {
		n.R = c.R.Subst(args, hasRecv)
	}
	return n.canon()
}

func (c Cond) canon() Cond {
	if (c.Op == "eq" || c.Op == "ne") && c.R != nil && c.L.String() > c.R.String() {
		return Cond{c.Op, c.R, c.L}
	}
	return c
}

func mkRel(op token.Token, l, r *Path) (Cond, bool) {
	switch op {
	case token.EQL:
		return Cond{"eq", l, r}.canon(), true
	case token.NEQ:
		return Cond{"ne", l, r}.canon(), true
	case token.LSS:
		return Cond{"lt", l, r}, true
	case token.LEQ:
		return Cond{"le", l, r}, true
	case token.GTR:
		return Cond{"lt", r, l}, true
	case token.GEQ:
		return Cond{"le", r, l}, true
	}
	return Cond{}, false
}

var zeroPath = &Path{Kind: "const", Name: "0"}

// threeWay rewrites `cmp(x,y) op c` (Cmp/Compare/Sign results in {-1,0,1}) into a relation on x,y.
func threeWay(op token.Token, c int64, x, y *Path) (Cond, bool) {
	// set of cmp values in {-1,0,1} satisfying "v op c"
	var sat [3]bool
	for i, v := range []int64{-1, 0, 1} {
		switch op {
		case token.EQL:
			sat[i] = v == c
		case token.NEQ:
			sat[i] = v != c
		case token.LSS:
			sat[i] = v < c
		case token.LEQ:
			sat[i] = v <= c
		case token.GTR:
			sat[i] = v > c
		case token.GEQ:
			sat[i] = v >= c
		}
	}
	switch sat {
	case [3]bool{true, false, false}:
		return Cond{"lt", x, y}, true
	case [3]bool{true, true, false}:
		return Cond{"le", x, y}, true
	case [3]bool{false, true, false}:
		return Cond{"eq", x, y}.canon(), true
	case [3]bool{true, false, true}:
		return Cond{"ne", x, y}.canon(), true
	case [3]bool{false, false, true}:
		return Cond{"lt", y, x}, true
	case [3]bool{false, true, true}:
		return Cond{"le", y, x}, true
	}
	return Cond{}, false
}

func flipOp(op token.Token) token.Token {
	switch op {
	case token.LSS:
		return token.GTR
	case token.LEQ:
		return token.GEQ
	case token.GTR:
		return token.LSS
	case token.GEQ:
		return token.LEQ
	}
	return op
}

func constInt(v ssa.Value) (int64, bool) {
	c, ok := v.(*ssa.Const)
	if !ok || c.Value == nil {
		return 0, false
	}
	if b, ok := c.Type().Underlying().(*types.Basic); !ok || b.Info()&types.IsInteger == 0 {
		return 0, false
	}
	return c.Int64(), true
}

// cmpCall recognises x.Cmp(y), bytes.Compare(x,y), x.Sign(), strings.Compare.
func (e *pathEnv) cmpCall(v ssa.Value) (x, y *Path, ok bool) {
	c, isCall := v.(*ssa.Call)
	if !isCall {
		return nil, nil, false
	}
	f := c.Call.StaticCallee()
	if f == nil {
		return nil, nil, false
	}
	switch f.String() {
	case "(*math/big.Int).Cmp":
		return e.of(c.Call.Args[0]), e.of(c.Call.Args[1]), true
	case "(*math/big.Int).Sign":
		return e.of(c.Call.Args[0]), zeroPath, true
	case "bytes.Compare", "strings.Compare":
		return e.of(c.Call.Args[0]), e.of(c.Call.Args[1]), true
	}
	return nil, nil, false
}

// condOf normalises a boolean SSA value.
func (e *pathEnv) condOf(v ssa.Value) Cond {
	switch x := v.(type) {
	case *ssa.UnOp:
		if x.Op == token.NOT {
			return e.condOf(x.X).Negate()
		}
	case *ssa.BinOp:
		switch x.Op {
		case token.EQL, token.NEQ, token.LSS, token.LEQ, token.GTR, token.GEQ:
			if c, ok := constInt(x.Y); ok {
				if a, b, ok2 := e.cmpCall(x.X); ok2 {
					if r, ok3 := threeWay(x.Op, c, a, b); ok3 {
						return r
					}
				}
			}
			if c, ok := constInt(x.X); ok {
				if a, b, ok2 := e.cmpCall(x.Y); ok2 {
					if r, ok3 := threeWay(flipOp(x.Op), c, a, b); ok3 {
						return r
					}
				}
			}
			// boolean compared with constant
			if isBool(x.X.Type()) {
				if c, ok := x.Y.(*ssa.Const); ok && c.Value != nil {
					inner := e.condOf(x.X)
					if (c.Value.String() == "true") == (x.Op == token.EQL) {
						return inner
					}
					return inner.Negate()
				}
			}
			if r, ok := mkRel(x.Op, e.of(x.X), e.of(x.Y)); ok {
				return r
			}
		}
	case *ssa.Call:
		if f := x.Call.StaticCallee(); f != nil {
			switch f.String() {
			case "bytes.Equal":
				return Cond{"eq", e.of(x.Call.Args[0]), e.of(x.Call.Args[1])}.canon()
			}
			// a predicate that is new relative to the reviewed tree and ends in one `return <test>`:
			// the test itself, in the caller's terms (a check moved into a helper keeps its form)
			if e.isNewHelper(&x.Call) && inlineDepth <= 1 && f.Recover == nil && f.Signature.Results().Len() == 1 && isBool(f.Signature.Results().At(0).Type()) {
				var only *ssa.Return
				n := 0
				for _, b := range f.Blocks {
					if ret, ok := lastInstr(b).(*ssa.Return); ok {
						only = ret
						n++
					}
				}
				if n == 1 && len(only.Results) == 1 {
					if _, isC := only.Results[0].(*ssa.Const); !isC {
						inlineDepth++
						hc := e.prog.Env(f).condOf(only.Results[0])
						inlineDepth--
						if hc.Op != "T" && hc.Op != "F" {
							return hc.Subst(e.callPath(&x.Call).Args, f.Signature.Recv() != nil)
						}
					}
				}
			}
		}
	}
	return Cond{"T", e.of(v), nil}
}

// Guard is one conditional branch of a function with its disposition.
type Guard struct {
	Fn      *ssa.Function
	Block   *ssa.BasicBlock
	If      *ssa.If
	Cond    Cond   // condition on which the TRUE edge is taken
	Reject  string // "true" | "false" | "" : which edge leads only to failure exits
	RejCond Cond   // condition under which the block is rejected (valid if Reject != "")
	Ctx     []Cond // conditions of the enclosing plain branches that must hold to reach this guard
	CtxAway [][2]*ssa.BasicBlock // for each context branch, the edge that leads away from this guard
	CtxBlock *ssa.BasicBlock // when the guard tests a short-circuit phi: the block that evaluated the deciding operand
	Line    int
	File    string
}

func (g *Guard) Accept() *ssa.BasicBlock {
	if g.Reject == "true" {
		return g.Block.Succs[1]
	}
	if g.Reject == "false" {
		return g.Block.Succs[0]
	}
	return nil
}

func (fi *FuncInfo) collectGuards() {
	for _, b := range fi.fn.Blocks {
		ifi, ok := lastInstr(b).(*ssa.If)
		if !ok {
			continue
		}
		g := &Guard{Fn: fi.fn, Block: b, If: ifi, Cond: fi.env.condOf(ifi.Cond)}
		pos := ifi.Cond.Pos()
		if !pos.IsValid() {
			pos = ifi.Pos()
		}
		if !pos.IsValid() {
			// find some instruction with a position in the block
			for i := len(b.Instrs) - 1; i >= 0 && !pos.IsValid(); i-- {
				pos = b.Instrs[i].Pos()
			}
		}
		g.File, g.Line = fi.prog.Pos(pos)
		t, f := fi.canOK[b.Succs[0]], fi.canOK[b.Succs[1]]
		switch {
		case !t && f:
			g.Reject = "true"
			g.RejCond = g.Cond
		case t && !f:
			g.Reject = "false"
			g.RejCond = g.Cond.Negate()
		}
		// `case A && B:` / `x := A && B; if x` — go/ssa materialises the short-circuit as a boolean
		// phi (B | false) and branches on it; an if/else-if chain branches directly. Both reject on B
		// under the context of the block that evaluated B (which is where A held).
		if ph, ok := ifi.Cond.(*ssa.Phi); ok && g.Reject != "" && len(ph.Edges) == len(b.Preds) && len(*ph.Referrers()) == 1 {
			var vb *ssa.BasicBlock
			var val ssa.Value
			okShape := true
			for i, ed := range ph.Edges {
				if c, isC := ed.(*ssa.Const); isC && c.Value != nil {
					isTrue := c.Value.String() == "true"
					// && : constants are false and the true edge rejects; || : constants are true and the false edge rejects
					if (g.Reject == "true" && isTrue) || (g.Reject == "false" && !isTrue) {
						okShape = false
					}
					continue
				}
				if val != nil {
					okShape = false
				}
				val, vb = ed, b.Preds[i]
			}
			if okShape && val != nil && vb != nil {
				c := fi.env.condOf(val)
				g.Cond = c
				if g.Reject == "true" {
					g.RejCond = c
				} else {
					g.RejCond = c.Negate()
				}
				g.CtxBlock = vb
			}
		}
		fi.guards = append(fi.guards, g)
	}
	// context: plain (non-rejecting) branches one of whose edges every path to the guard uses
	for _, g := range fi.guards {
		for _, c := range fi.guards {
			if c == g || c.Reject != "" {
				continue
			}
			if isLoopHeader(c.Block) {
				continue
			}
			if c.Block.Succs[0] == c.Block.Succs[1] {
				continue
			}
			at := g.Block
			if g.CtxBlock != nil {
				at = g.CtxBlock
			}
			if edgeDominates(c.Block, c.Block.Succs[0], at) {
				g.Ctx = append(g.Ctx, c.Cond)
				g.CtxAway = append(g.CtxAway, [2]*ssa.BasicBlock{c.Block, c.Block.Succs[1]})
			} else if edgeDominates(c.Block, c.Block.Succs[1], at) {
				g.Ctx = append(g.Ctx, c.Cond.Negate())
				g.CtxAway = append(g.CtxAway, [2]*ssa.BasicBlock{c.Block, c.Block.Succs[0]})
			}
		}
	}
}

// DominatesInContext: within the context in which the guard applies, every path from the entry to
// block b passes the accepting edge of the guard (paths that leave the guard's context through the
// other edge of one of its enclosing branches are not counted).
func (g *Guard) DominatesInContext(b *ssa.BasicBlock) bool {
	acc := g.Accept()
	if acc == nil {
		return false
	}
	reach := reachableAvoiding(g.Fn, func(x, y *ssa.BasicBlock) bool {
		if x == g.Block && y == acc {
			return true
		}
		for _, e := range g.CtxAway {
			if e[0] == x && e[1] == y {
				return true
			}
		}
		return false
	}, nil)
	return !reach[b]
}

// Full is the canonical text of a rejecting guard: condition plus enclosing context.
func (g *Guard) Full() string { return fullCond(g.RejCond, g.Ctx) }

func fullCond(c Cond, ctx []Cond) string {
	s := c.String()
	if len(ctx) == 0 {
		return s
	}
	var cs []string
	seen := map[string]bool{}
	for _, x := range ctx {
		if xs := x.String(); !seen[xs] {
			seen[xs] = true
			cs = append(cs, xs)
		}
	}
	sort.Strings(cs)
	return s + " @ " + strings.Join(cs, " & ")
}

// RejectConds lists canonical strings of the conditions on which fn rejects.
func (fi *FuncInfo) RejectConds() []string {
	var out []string
	for _, g := range fi.guards {
		if g.Reject != "" {
			out = append(out, g.Full())
		}
	}
	sort.Strings(out)
	return out
}

// ---------------------------------------------------------------------------------------------
// Calls

// CallSite is one call instruction with resolved callee description.
type CallSite struct {
	Instr  ssa.CallInstruction
	Fn     *ssa.Function // enclosing
	Callee string        // canonical: module function name, or "pkgpath.Func" / "(recvtype).Method" for others; for invoke "iface:<Type>.<Method>"
	Method string        // bare method / function name
	Path   *Path
	File   string
	Line   int
}

func (p *Prog) calleeName(c *ssa.CallCommon) (full, bare string) {
	if c.IsInvoke() {
		return "iface:" + shortType(c.Value.Type()) + "." + c.Method.Name(), c.Method.Name()
	}
	switch f := c.Value.(type) {
	case *ssa.Function:
		if n := p.FuncName(f); n != "" {
			return n, f.Name()
		}
		return f.String(), f.Name()
	case *ssa.Builtin:
		return "builtin:" + f.Name(), f.Name()
	case *ssa.MakeClosure:
		if fn, ok := f.Fn.(*ssa.Function); ok {
			return p.FuncName(fn), fn.Name()
		}
	}
	return "dyn", "dyn"
}

// Calls lists the call sites of fn (optionally including its closures).
func (p *Prog) Calls(fn *ssa.Function, withClosures bool) []*CallSite {
	var out []*CallSite
	var visit func(f *ssa.Function)
	visit = func(f *ssa.Function) {
		env := p.Env(f)
		for _, b := range f.Blocks {
			for _, in := range b.Instrs {
				ci, ok := in.(ssa.CallInstruction)
				if !ok {
					continue
				}
				full, bare := p.calleeName(ci.Common())
				cs := &CallSite{Instr: ci, Fn: f, Callee: full, Method: bare}
				cs.Path = env.callPath(ci.Common())
				pos := ci.Pos()
				if !pos.IsValid() {
					pos = ci.Common().Pos()
				}
				cs.File, cs.Line = p.Pos(pos)
				out = append(out, cs)
			}
		}
		if withClosures {
			for _, a := range f.AnonFuncs {
				visit(a)
			}
		}
	}
	visit(fn)
	return out
}

// FindCalls returns the call sites in fn whose callee matches: exact canonical name, or bare method
// name when match starts with "." (e.g. ".SubBalance").
func (p *Prog) FindCalls(fn *ssa.Function, match string, withClosures bool) []*CallSite {
	var out []*CallSite
	for _, cs := range p.Calls(fn, withClosures) {
		if calleeMatches(cs, match) {
			out = append(out, cs)
		}
	}
	return out
}

func calleeMatches(cs *CallSite, match string) bool {
	if calleeMatches1(cs, match) {
		return true
	}
	// a call of a helper that is new relative to the reviewed tree counts as the calls it makes
	if knownFuncs != nil && theProg != nil && cs.Instr != nil && !strings.HasPrefix(match, "=") {
		if h := cs.Instr.Common().StaticCallee(); h != nil && h.Blocks != nil {
			if n := theProg.FuncName(h); n != "" && !knownFuncs[n] {
				for _, hc := range theProg.Calls(h, false) {
					if calleeMatches1(hc, match) {
						return true
					}
				}
			}
		}
	}
	return false
}

// theProg: the program being analysed (one per process), for lookups from plain helper functions.
var theProg *Prog

func calleeMatches1(cs *CallSite, match string) bool {
	if strings.HasPrefix(match, ".") {
		return cs.Method == match[1:]
	}
	if strings.HasPrefix(match, "=") {
		return cs.Path.String() == match[1:]
	}
	return cs.Callee == match
}

// errCheckOf finds, for a call whose result includes an error, the If that tests it against nil
// and returns the successor taken when the error is nil. nil if the error is not tested.
func (p *Prog) nilErrEdge(ci ssa.CallInstruction) (from, okSucc *ssa.BasicBlock) {
	v := ci.Value()
	if v == nil {
		return nil, nil
	}
	var errVals []ssa.Value
	sig := ci.Common().Signature()
	ei := errResultIndex(sig)
	if ei < 0 {
		return nil, nil
	}
	if sig.Results().Len() == 1 {
		errVals = append(errVals, v)
	} else {
		for _, r := range *v.Referrers() {
			if ex, ok := r.(*ssa.Extract); ok && ex.Index == ei {
				errVals = append(errVals, ex)
			}
		}
	}
	for _, ev := range errVals {
		for _, r := range *ev.Referrers() {
			bo, ok := r.(*ssa.BinOp)
			if !ok || (bo.Op != token.EQL && bo.Op != token.NEQ) {
				continue
			}
			var other ssa.Value
			if bo.X == ev {
				other = bo.Y
			} else {
				other = bo.X
			}
			c, isC := other.(*ssa.Const)
			if !isC || c.Value != nil {
				continue
			}
			for _, r2 := range *bo.Referrers() {
				if ifi, ok := r2.(*ssa.If); ok {
					b := ifi.Block()
					if bo.Op == token.NEQ {
						return b, b.Succs[1]
					}
					return b, b.Succs[0]
				}
			}
		}
	}
	return nil, nil
}

func describeInstr(p *Prog, in ssa.Instruction) string {
	f, l := p.Pos(in.Pos())
	return fmt.Sprintf("%s:%d", f, l)
}

// ---------------------------------------------------------------------------------------------
// Effects: calls (with canonical argument paths) and stores to non-local memory.

type Effect struct {
	Kind  string // call | store | return
	Canon string
	P, V  *Path // call path, or store address and value (for substitution when inlined)
	Instr ssa.Instruction
	File  string
	Line  int
	Callee string
}

// Effects lists the effects of fn (not of its closures).
func (p *Prog) Effects(fn *ssa.Function) []*Effect {
	var out []*Effect
	env := p.Env(fn)
	for _, b := range fn.Blocks {
		if b == fn.Recover {
			continue // entered only after a recovered panic; not part of the normal control flow
		}
		for _, in := range b.Instrs {
			switch x := in.(type) {
			case ssa.CallInstruction:
				full, _ := p.calleeName(x.Common())
				cp := env.callPath(x.Common())
				e := &Effect{Kind: "call", Canon: cp.String(), Instr: in, Callee: full, P: cp}
				if _, isGo := in.(*ssa.Go); isGo {
					e.Canon = "go " + e.Canon
				}
				if _, isDefer := in.(*ssa.Defer); isDefer {
					e.Canon = "defer " + e.Canon
				}
				pos := x.Pos()
				if !pos.IsValid() {
					pos = x.Common().Pos()
				}
				e.File, e.Line = p.Pos(pos)
				out = append(out, e)
			case *ssa.Store:
				if isLocalAddr(x.Addr) {
					continue
				}
				e := &Effect{Kind: "store", Canon: "store " + env.of(x.Addr).String() + " = " + env.of(x.Val).String(), Instr: in, P: env.of(x.Addr), V: env.of(x.Val)}
				e.File, e.Line = p.Pos(x.Pos())
				out = append(out, e)
			case *ssa.MapUpdate:
				e := &Effect{Kind: "store", Canon: "store " + env.of(x.Map).String() + "[" + env.of(x.Key).String() + "] = " + env.of(x.Value).String(), Instr: in,
					P: &Path{Kind: "index", Args: []*Path{env.of(x.Map), env.of(x.Key)}}, V: env.of(x.Value)}
				e.File, e.Line = p.Pos(x.Pos())
				out = append(out, e)
			case *ssa.Return:
				var rs []string
				for i := range x.Results {
					rs = append(rs, env.of(retOperand(x, i)).String())
				}
				e := &Effect{Kind: "return", Canon: "return " + strings.Join(rs, ", "), Instr: in}
				e.File, e.Line = p.Pos(x.Pos())
				out = append(out, e)
			}
		}
	}
	for _, e := range out {
		if len(e.Canon) > 1200 {
			// very long forms (embedded JSON/ABI literals): a prefix and a digest identify them
			sum := sha256.Sum256([]byte(e.Canon))
			e.Canon = e.Canon[:300] + "…[sha256:" + hex.EncodeToString(sum[:8]) + "]"
		}
	}
	return out
}

// isLocalAddr: the address is a local variable slot (Alloc of a non-escaping or scalar local) —
// stores to fields of freshly built composite literals are kept (they are how blocks are built).
func isLocalAddr(a ssa.Value) bool {
	switch x := a.(type) {
	case *ssa.Alloc:
		return true
	case *ssa.FreeVar:
		_ = x
		return true
	}
	return false
}

// isLoopHeader: the block dominates one of its predecessors (natural-loop header). Its branch is the
// loop condition, which is not part of a guard's context.
func isLoopHeader(b *ssa.BasicBlock) bool {
	for _, p := range b.Preds {
		if b.Dominates(p) {
			return true
		}
	}
	return false
}

// EffectSetInlined: canonical effects of fn plus those of the module functions it calls statically
// (one level), with the callee's parameters replaced by the caller's arguments — an effect moved
// into a helper is still performed by the caller.
func (p *Prog) EffectSetInlined(fn *ssa.Function) map[string]bool {
	set := map[string]bool{}
	for _, e := range p.Effects(fn) {
		set[e.Canon] = true
		if e.Kind != "call" || e.P == nil {
			continue
		}
		ci, ok := e.Instr.(ssa.CallInstruction)
		if !ok {
			continue
		}
		g := ci.Common().StaticCallee()
		if g == nil || g == fn || g.Blocks == nil || p.FuncName(g) == "" {
			continue
		}
		hasRecv := g.Signature.Recv() != nil
		args := e.P.Args
		if e.P.Name == "dyn" || e.P.Name == "closure" {
			continue
		}
		prefix := ""
		if strings.HasPrefix(e.Canon, "defer ") {
			prefix = ""
		}
		for _, ge := range p.Effects(g) {
			switch {
			case ge.Kind == "call" && ge.P != nil:
				c := ge.P.Subst(args, hasRecv).String()
				if strings.HasPrefix(ge.Canon, "defer ") {
					c = "defer " + c
				} else if strings.HasPrefix(ge.Canon, "go ") {
					c = "go " + c
				}
				set[prefix+c] = true
			case ge.Kind == "store" && ge.P != nil && ge.V != nil:
				if ge.P.Kind == "index" && len(ge.P.Args) == 2 {
					set["store "+ge.P.Args[0].Subst(args, hasRecv).String()+"["+ge.P.Args[1].Subst(args, hasRecv).String()+"] = "+ge.V.Subst(args, hasRecv).String()] = true
				} else {
					set["store "+ge.P.Subst(args, hasRecv).String()+" = "+ge.V.Subst(args, hasRecv).String()] = true
				}
			}
		}
	}
	return set
}

// NewHelperEffects: canonical effects performed on fn's behalf by *new* helpers it calls (functions
// that did not exist on the reviewed tree), in the caller's terms.
func (p *Prog) NewHelperEffects(fn *ssa.Function) map[string]bool {
	set := map[string]bool{}
	if knownFuncs == nil {
		return set
	}
	for _, e := range p.Effects(fn) {
		if e.Kind != "call" || e.P == nil {
			continue
		}
		ci, ok := e.Instr.(ssa.CallInstruction)
		if !ok {
			continue
		}
		g := ci.Common().StaticCallee()
		if g == nil || g == fn || g.Blocks == nil {
			continue
		}
		if n := p.FuncName(g); n == "" || knownFuncs[n] {
			continue
		}
		hasRecv := g.Signature.Recv() != nil
		for _, ge := range p.Effects(g) {
			switch {
			case ge.Kind == "call" && ge.P != nil:
				c := ge.P.Subst(e.P.Args, hasRecv).String()
				if strings.HasPrefix(ge.Canon, "defer ") {
					c = "defer " + c
				} else if strings.HasPrefix(ge.Canon, "go ") {
					c = "go " + c
				}
				set[c] = true
			case ge.Kind == "store" && ge.P != nil && ge.V != nil:
				if ge.P.Kind == "index" && len(ge.P.Args) == 2 {
					set["store "+ge.P.Args[0].Subst(e.P.Args, hasRecv).String()+"["+ge.P.Args[1].Subst(e.P.Args, hasRecv).String()+"] = "+ge.V.Subst(e.P.Args, hasRecv).String()] = true
				} else {
					set["store "+ge.P.Subst(e.P.Args, hasRecv).String()+" = "+ge.V.Subst(e.P.Args, hasRecv).String()] = true
				}
			}
		}
	}
	return set
}
