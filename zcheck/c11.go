package main

import (
	"fmt"
	"go/token"
	"strings"

	"golang.org/x/tools/go/ssa"
)

// C11 — rewards: bounded by the epoch's emission, paid once, identical on all nodes.

func init() {
	register(&propDef{
		ID: "C11",
		Explain: "Structural necessary conditions: (1) K1+K3 epoch cursor: only checkAndPerformUpdateEpoch advances LastEpochUpdate.LastEpoch (by exactly 1, then saves), on the accept edge of the 'epoch ended + RewardTimeLimit before the acknowledged momentum' guard; (2) K2 advance ⇔ reward over the five update loops: after a successful advance no path returns without computing that epoch's rewards, and the compute call's epoch argument is the cursor (one loop fails: known finding D14); " +
			"(3) K1+K2+K4 crediting and collecting: addReward is called only from the compute functions; CollectReward mints exactly the deposited ZNN/QSR to the caller and deletes the deposit on every success path, both-zero ⇒ reject; (4) K10 emission split: the percentage variables sum to ≤ 100 per coin and each *RewardForEpoch multiplies the network reward by its own percentage and divides by 100; (5) every rejection and every record/credit effect of the reward code (update/compute/collect functions, weights, pillar percentage validation) is present in normal form (frozen tables); divisor guards of the pro-rata shares (shared with C09); " +
			"(6) node independence: the reward code is inside the consensus-critical region (K9 inventory, map loops triaged), reads statistics only for epochs that passed the cursor guard, cached points are hash-validated (C06) and merging cached points copies them (no aliasing of LRU objects).",
		NotDec: "Σ credited ≤ emission numerically; golden amounts; that truncating division makes Σ shares ≤ total (arithmetic).",
		Run:    runC11,
		Controls: []control{
			{Name: "pillar-percentage-wrong-operand", File: implDir + "pillars.go", Old: "if param.GiveDelegateRewardPercentage > 100 || param.GiveDelegateRewardPercentage < 0 {", New: "if param.GiveBlockRewardPercentage > 100 || param.GiveDelegateRewardPercentage < 0 {", ExpectKeySub: "checkPillarPercentages"},
			{Name: "collect-keeps-deposit", File: implDir + "common.go", Old: "\tcommon.DealWithErr(deposit.Delete(context.Storage()))\n", New: "", ExpectKeySub: "CollectRewardMethod"},
			{Name: "cursor-advanced-twice", File: implDir + "common.go", Old: "\tepoch.LastEpoch += 1\n", New: "\tepoch.LastEpoch += 2\n", ExpectKeySub: "LastEpoch"},
			{Name: "sentinel-cap-before-compute", File: implDir + "sentinel.go", Old: "\t\tif err := checkAndPerformUpdateEpoch(context, lastEpoch); err == constants.ErrEpochUpdateTooRecent {", New: "\t\tif err := checkAndPerformUpdateEpoch(context, lastEpoch); err == constants.ErrEpochUpdateTooRecent || lastEpoch.LastEpoch%7 == 0 {", ExpectKeySub: "advance"},
			{Name: "stake-percentage-swapped", File: "vm/constants/embedded.go", Old: "qsr := (NetworkQsrRewardPerEpoch(epoch) * StakingQsrRewardPercentage) / 100\n\treturn big.NewInt(qsr)", New: "qsr := (NetworkQsrRewardPerEpoch(epoch) * StakingQsrRewardPercentage) / 10\n\treturn big.NewInt(qsr)", ExpectKeySub: "StakeQsrRewardPerEpoch"},
			{Name: "percentages-over-100", File: "vm/constants/embedded.go", Old: "SentinelQsrRewardPercentage  int64  = 25", New: "SentinelQsrRewardPercentage  int64  = 35", ExpectKeySub: "emission split"},
			{Name: "leftappend-aliases-cache", File: "consensus/storage/point.go", Old: "p.Pillars[k] = v.Copy()", New: "p.Pillars[k] = v", ExpectKeySub: "LeftAppend"},
			{Name: "reward-code-uses-goroutine", File: implDir + "stake.go", Old: "\tstartTime, endTime := context.EpochTicker().ToTime(epoch)\n\n\tcumulatedStake := big.NewInt(0)", New: "\tstartTime, endTime := context.EpochTicker().ToTime(epoch)\n\tdone := make(chan struct{})\n\tgo func() { close(done) }()\n\t<-done\n\n\tcumulatedStake := big.NewInt(0)", ExpectKeySub: "goroutine"},
		},
	})
}

// advanceImpliesReward: K2 (b).
func advanceImpliesReward(r *Run, fnName, compute string) {
	why := "an epoch whose cursor was advanced must be rewarded in the same iteration: a return between the advance and the compute marks the epoch rewarded with nothing credited (rewarded zero times)"
	fn := r.fn(fnName)
	if fn == nil {
		return
	}
	file, line := r.P.FnPos(fn)
	construct := "advance ⇒ " + compute
	adv := r.P.FindCalls(fn, "vm/embedded/implementation.checkAndPerformUpdateEpoch", false)
	if len(adv) != 1 {
		r.viol("K2-advance-reward", fnName, construct, fmt.Sprintf("expected exactly one checkAndPerformUpdateEpoch call, found %d", len(adv)), why, file, line)
		return
	}
	v := adv[0].Instr.Value()
	type edge struct{ a, b *ssa.BasicBlock }
	cut := map[edge]bool{}
	for _, b := range fn.Blocks {
		ifi, ok := lastInstr(b).(*ssa.If)
		if !ok {
			continue
		}
		bo, ok := ifi.Cond.(*ssa.BinOp)
		if !ok || (bo.Op != token.EQL && bo.Op != token.NEQ) {
			continue
		}
		var other ssa.Value
		if sameValue(bo.X, v) {
			other = bo.Y
		} else if sameValue(bo.Y, v) {
			other = bo.X
		} else {
			continue
		}
		isNil := false
		if c, ok := other.(*ssa.Const); ok && c.Value == nil {
			isNil = true
		}
		// the edge on which the advance FAILED (err is a sentinel / non-nil) is not an "advanced" path
		switch {
		case isNil && bo.Op == token.NEQ:
			cut[edge{b, b.Succs[0]}] = true
		case isNil && bo.Op == token.EQL:
			cut[edge{b, b.Succs[1]}] = true
		case !isNil && bo.Op == token.EQL:
			cut[edge{b, b.Succs[0]}] = true
		case !isNil && bo.Op == token.NEQ:
			cut[edge{b, b.Succs[1]}] = true
		}
	}
	comp := map[*ssa.BasicBlock]bool{}
	cs := r.P.FindCalls(fn, compute, false)
	if len(cs) == 0 {
		r.viol("K2-advance-reward", fnName, construct, fnName+" no longer calls "+compute, why, file, line)
		return
	}
	for _, c := range cs {
		comp[c.Instr.Block()] = true
		// epoch argument is the cursor
		args := c.Path.Args
		ok := false
		for _, a := range args {
			if strings.Contains(a.String(), ".LastEpoch") {
				ok = true
			}
		}
		if !ok {
			r.viol("K4-provenance", fnName, "epoch argument of "+compute, "the epoch passed to "+compute+" is not the cursor's LastEpoch", "the epoch rewarded is the epoch the cursor was advanced to", c.File, c.Line)
		}
	}
	start := adv[0].Instr.Block()
	seen := map[*ssa.BasicBlock]bool{start: true}
	work := []*ssa.BasicBlock{start}
	for len(work) > 0 {
		b := work[len(work)-1]
		work = work[:len(work)-1]
		if b != start || true {
			if _, isRet := lastInstr(b).(*ssa.Return); isRet && !comp[b] {
				f2, l2 := r.P.Pos(lastInstr(b).Pos())
				r.viol("K2-advance-reward", fnName, construct, fmt.Sprintf("after checkAndPerformUpdateEpoch succeeded (cursor advanced and saved, %s:%d) the return at %s:%d is reachable without %s: that epoch is never rewarded", adv[0].File, adv[0].Line, f2, l2, compute), why, f2, l2)
				return
			}
		}
		if comp[b] {
			continue
		}
		for _, s := range b.Succs {
			if cut[edge{b, s}] || seen[s] {
				continue
			}
			seen[s] = true
			work = append(work, s)
		}
	}
	r.pass("K2-advance-reward", fnName, construct, "", why, adv[0].File, adv[0].Line)
}

func c11Funcs(t tableRow) bool {
	f := strings.TrimPrefix(t.F, "vm/embedded/implementation.")
	for _, p := range []string{"update", "compute", "addReward", "(*CollectRewardMethod)", "checkAndPerformUpdateEpoch", "CanPerformEpochUpdate", "checkAndPerformUpdate", "CanPerformUpdate", "getWeighted", "checkPillarPercentages", "(*UpdateEmbedded", "(*UpdateRewardEmbedded", "(*UpdatePillarMethod)", "(*RegisterMethod)", "(*LegacyRegisterMethod)", "checkAndRegisterPillar", "(*SetAdditionalReward)", "(*DelegateMethod)", "(*UndelegateMethod)"} {
		if strings.HasPrefix(f, p) {
			return true
		}
	}
	return false
}

func runC11(r *Run) {
	r.NoSharedBigIntInLoop([]string{"consensus", "vm/embedded/implementation.", "vm/embedded/definition.", "common/types."}, "decoded or computed per-element numbers (weights, amounts) must be separate objects")
	r.PureShapes([]string{"vm/embedded/implementation.getWeightedStakeAmount", "vm/embedded/implementation.getWeightedStake", "vm/embedded/implementation.getWeightedSentinel", "vm/embedded/implementation.getWeightedLiquidityStake", "vm/embedded/implementation.getWeightedLiquidityStakeAmount", "vm/embedded/implementation.computePillarRewardForEpoch"},
		"the pro-rata weights and the per-pillar reward are computed by these helpers: a changed operand changes every share")
	I := "vm/embedded/implementation."
	// (1) cursor
	r.FieldWriters("vm/embedded/definition", "LastEpochUpdate", "LastEpoch", []string{I + "checkAndPerformUpdateEpoch", "vm/embedded/definition.*", "chain/genesis.*"}, "only the guarded cursor function advances the epoch cursor")
	cp := I + "checkAndPerformUpdateEpoch"
	r.Guards([]row{
		{F: cp, C: "ne(implementation.CanPerformEpochUpdate(a0,a1),nil)", Why: "the cursor advances only when the epoch is due"},
		{F: I + "CanPerformEpochUpdate", C: "lt(a0.GetFrontierMomentum()#0.Timestamp.Unix(),(a0.EpochTicker().ToTime(conv:uint64((a1.LastEpoch+1)))#1.Unix()+constants.RewardTimeLimit))", Why: "an epoch is rewarded only once it ended (plus the time limit) before the acknowledged momentum — which also makes the statistics it reads final"},
		{F: I + "CanPerformEpochUpdate", C: "ne(a0.GetFrontierMomentum()#1,nil)", Why: "lookup failure is an error"},
	})
	r.Has(cp, "store a1.LastEpoch = (a1.LastEpoch+1)", "the cursor advances by exactly one epoch")
	r.Returns(cp, []string{"implementation.CanPerformEpochUpdate(a0,a1)", "a1.Save(a0.Storage())"}, "the advanced cursor is saved; a save error is returned")
	r.StoreContext(cp, "store a1.LastEpoch = ", "", "the advance is unconditional after the guard")

	// (2) advance ⇔ reward
	for fn, comp := range map[string]string{
		I + "updateStakeRewards":          I + "computeStakeRewardsForEpoch",
		I + "updateSentinelRewards":       I + "computeSentinelRewardsForEpoch",
		I + "updatePillarRewards":         I + "computeDetailedPillarReward",
		I + "updateLiquidityRewards":      I + "computeLiquidityRewardsForEpoch",
		I + "updateLiquidityStakeRewards": I + "computeLiquidityStakeRewardsForEpoch",
	} {
		advanceImpliesReward(r, fn, comp)
	}

	// (3) crediting and collecting
	r.WhoMayCall("reward crediting addReward", []string{I + "addReward"},
		[]string{I + "computeStakeRewardsForEpoch", I + "computeSentinelRewardsForEpoch", I + "computeDetailedPillarReward", I + "computeLiquidityStakeRewardsForEpoch", I + "computeLiquidityRewardsForEpoch"},
		"rewards are credited only by the per-epoch compute functions")
	col := I + "(*CollectRewardMethod).ReceiveBlock"
	r.Alias("$dep", "definition.GetRewardDeposit(a0.Storage(),a1.Address)#0")
	r.Always(col, "$dep.Delete(a0.Storage())", "a collected reward is consumed on every success path: it can be collected exactly once")
	r.Guards([]row{{F: col, C: "eq(0,$dep.Qsr) @ eq(0,$dep.Znn)", Why: "nothing credited ⇒ nothing minted"}})
	r.HasPrefix(col, "store new(nom.AccountBlock).Data = definition.ABIToken.PackMethodPanic(\"Mint\",list(types.ZnnTokenStandard,$dep.Znn,a1.Address))", "mints exactly the credited ZNN to the collector")
	r.HasPrefix(col, "store new(nom.AccountBlock).Data = definition.ABIToken.PackMethodPanic(\"Mint\",list(types.QsrTokenStandard,$dep.Qsr,a1.Address))", "mints exactly the credited QSR to the collector")
	r.Has(I+"addReward", "definition.GetRewardDeposit(a0.Storage(),a2.Address)#0.Znn.Add(definition.GetRewardDeposit(a0.Storage(),a2.Address)#0.Znn,a2.Znn)", "credits accumulate on the beneficiary's deposit")
	r.Has(I+"addReward", "definition.GetRewardDeposit(a0.Storage(),a2.Address)#0.Qsr.Add(definition.GetRewardDeposit(a0.Storage(),a2.Address)#0.Qsr,a2.Qsr)", "credits accumulate on the beneficiary's deposit")

	// (4) emission split
	gf := r.P.globals()
	sum := func(names ...string) (int64, bool) {
		var s int64
		for _, n := range names {
			c, ok := gf.initVal["constants."+n].(*ssa.Const)
			if !ok || c.Value == nil || len(gf.writers["constants."+n]) > 0 {
				return 0, false
			}
			s += c.Int64()
		}
		return s, true
	}
	for coin, names := range map[string][]string{
		"ZNN": {"DelegationZnnRewardPercentage", "MomentumProducingZnnRewardPercentage", "SentinelZnnRewardPercentage", "LiquidityZnnRewardPercentage"},
		"QSR": {"StakingQsrRewardPercentage", "SentinelQsrRewardPercentage", "LiquidityQsrRewardPercentage"},
	} {
		s, ok := sum(names...)
		switch {
		case !ok:
			r.viol("K10-constants", "vm/constants.init", "emission split "+coin, "a percentage variable is no longer a constant initialised once (or is assigned by non-test code)", "the contracts' shares of the epoch emission must not exceed 100%", "vm/constants/embedded.go", 0)
		case s > 100:
			r.viol("K10-constants", "vm/constants.init", "emission split "+coin, fmt.Sprintf("the %s reward percentages sum to %d > 100: the contracts together credit more than the epoch's emission", coin, s), "the contracts' shares of the epoch emission must not exceed 100%", "vm/constants/embedded.go", 0)
		default:
			r.pass("K10-constants", "vm/constants.init", "emission split "+coin, fmt.Sprintf("sum = %d", s), "the contracts' shares of the epoch emission must not exceed 100%", "vm/constants/embedded.go", 0)
		}
	}
	C := "vm/constants."
	r.Returns(C+"StakeQsrRewardPerEpoch", []string{"big.NewInt(((constants.NetworkQsrRewardPerEpoch(a0)*constants.StakingQsrRewardPercentage)/100))"}, "staking share = network QSR × its own percentage / 100")
	r.Returns(C+"SentinelRewardForEpoch", []string{"big.NewInt(((constants.NetworkZnnRewardPerEpoch(a0)*constants.SentinelZnnRewardPercentage)/100)), big.NewInt(((constants.NetworkQsrRewardPerEpoch(a0)*constants.SentinelQsrRewardPercentage)/100))"}, "sentinel shares use the sentinel percentages")
	r.Returns(C+"LiquidityRewardForEpoch", []string{"big.NewInt(((constants.NetworkZnnRewardPerEpoch(a0)*constants.LiquidityZnnRewardPercentage)/100)), big.NewInt(((constants.NetworkQsrRewardPerEpoch(a0)*constants.LiquidityQsrRewardPercentage)/100))"}, "liquidity shares use the liquidity percentages")
	r.Returns(C+"PillarRewardPerMomentum", []string{"big.NewInt((((constants.NetworkZnnRewardPerEpoch(a0)*constants.DelegationZnnRewardPercentage)/100)/constants.MomentumsPerEpoch)), big.NewInt((((constants.NetworkZnnRewardPerEpoch(a0)*constants.MomentumProducingZnnRewardPercentage)/100)/constants.MomentumsPerEpoch))"}, "pillar shares use the delegation/producing percentages, per momentum")
	for _, f := range []string{"Znn", "Qsr"} {
		fn := C + "Network" + f + "RewardPerEpoch"
		cfg := "constants.Network" + f + "RewardConfig"
		r.Branch(fn, "le(len("+cfg+"),conv:int((a0/constants.RewardTickDurationInEpochs)))", "schedule index clamped")
		r.Returns(fn, []string{cfg + "[(len(" + cfg + ")-1)]", cfg + "[conv:int((a0/constants.RewardTickDurationInEpochs))]"}, "emission of an epoch is the schedule entry of its reward tick")
	}

	// (5) frozen tables for the reward code, divisors
	ng := r.GuardTable(c11Funcs, "a rejection performed by the reward code (update/compute/collect, weights, pillar percentage validation): it bounds what is credited and when")
	ne := r.EffectTable(c11Funcs, "a record/credit effect of the reward code: which amount is credited to whom, from which weight over which total")
	r.Notes = append(r.Notes, "frozen reward tables: guards="+itoa(ng)+" effects="+itoa(ne))
	r.Divisions([]string{I + "compute", I + "getWeighted", "vm/constants."}, map[string]string{
		I + "computePillarRewardForEpoch|new(big.Int)": "tmp holds ExceptedBlockNum; early return when it is 0 (branch checked in C09)",
	}, "pro-rata shares divide by the total weight, which must be non-zero")

	// (6) node independence
	reg := r.Region("REWARD", []string{I + "updateStakeRewards", I + "updateSentinelRewards", I + "updatePillarRewards", I + "updateLiquidityRewards", I + "updateLiquidityStakeRewards", col}, false)
	r.Determinism("REWARD", reg, ccrTriage, "credited amounts must be a function of the chain alone")
	r.Has("consensus/storage.(*Point).LeftAppend", "store recv.Pillars[next(range(a0.Pillars))#1] = next(range(a0.Pillars))#2.Copy()", "epoch statistics are merged from copies of the cached period points: recomputing the running epoch never mutates cached objects, so the statistics do not depend on node-local query history")
	for fn, pre := range map[string]string{"consensus.(*compoundPoints).GetPoint": "recv.prefix", "consensus.(*periodPoints).GetPoint": "0"} {
		r.Branch(fn, "ne(recv.ChainTicker.GetEndBlock(a0)#0.Hash,recv.db.GetPointByHeight("+pre+",a0)#0.EndHash)", "statistics are validated against the current chain")
	}
}
