package main

import (
	"os"
	_ "embed"
	"encoding/json"
	"fmt"
	"sort"
	"strings"

	"golang.org/x/tools/go/ssa"
)

//go:embed tables/impl_guards.json
var implGuardsJSON []byte

//go:embed tables/impl_effects.json
var implEffectsJSON []byte

type tableRow struct {
	F    string `json:"f"`
	C    string `json:"c"`
	File string `json:"file"`
}

func loadTable(b []byte) []tableRow {
	var rows []tableRow
	if err := json.Unmarshal(b, &rows); err != nil {
		panic("bad embedded table: " + err.Error())
	}
	return rows
}

// GuardTable checks every row of the embedded contract guard table selected by keep. The table was
// generated from the reviewed tree (zcheck -gentable) and is frozen: each row is a rejection a
// contract method performs today, in normal form (relation over access paths + branch context).
func (r *Run) GuardTable(keep func(tableRow) bool, why string) int {
	n := 0
	for _, row := range loadTable(implGuardsJSON) {
		if !keep(row) {
			continue
		}
		n++
		r.Guard(row.F, row.C, why)
	}
	if n == 0 {
		r.viol("vacuous-rule", "", "guard table", "no table row selected", why, "", 0)
	}
	return n
}

// EffectTable checks every selected row of the embedded contract effect table (stores into records
// and descendant blocks, Save/Delete, balance moves, big.Int mutation of record fields).
func (r *Run) EffectTable(keep func(tableRow) bool, why string) int {
	n := 0
	byFn := map[string]map[string]bool{}
	for _, row := range loadTable(implEffectsJSON) {
		if !keep(row) {
			continue
		}
		n++
		set, ok := byFn[row.F]
		if !ok {
			set = map[string]bool{}
			if fn := r.fn(row.F); fn != nil {
				for _, e := range r.P.Effects(fn) {
					set[e.Canon] = true
				}
				for c := range r.P.NewHelperEffects(fn) {
					set[c] = true
				}
			}
			byFn[row.F] = set
		}
		if r.P.Fn(row.F) == nil {
			continue // unresolved anchor already reported once by r.fn
		}
		fn := r.P.Fn(row.F)
		file, line := r.P.FnPos(fn)
		if set[row.C] {
			r.pass("K4-effect", row.F, row.C, "", why, file, line)
		} else if implicitZeroStore(set, row.C) {
			r.pass("K4-effect", row.F, row.C, "implicit: the field of the fresh allocation is never written, so it keeps its zero value", why, file, line)
		} else {
			head := row.C
			if i := strings.Index(head, " = "); i > 0 && strings.HasPrefix(head, "store ") {
				head = head[:i]
			} else if i := strings.Index(head, "("); i > 0 {
				head = head[:i]
			}
			var near []string
			for c := range set {
				if strings.HasPrefix(c, head) {
					near = append(near, c)
				}
			}
			d := row.F + " no longer performs `" + row.C + "`"
			if len(near) > 0 && len(near) < 4 {
				d += "; it now has: " + strings.Join(near, " ; ")
			}
			r.viol("K4-effect", row.F, row.C, d, why, file, line)
		}
	}
	if n == 0 {
		r.viol("vacuous-rule", "", "effect table", "no table row selected", why, "", 0)
	}
	return n
}

func fileIn(files ...string) func(tableRow) bool {
	set := map[string]bool{}
	for _, f := range files {
		set[f] = true
	}
	return func(t tableRow) bool { return set[t.File] }
}

// implicitZeroStore: an expected `store new(T).F = <zero>` into a fresh allocation is also satisfied
// when the function never writes that field at all (a composite literal that omits a zero field).
func implicitZeroStore(effects map[string]bool, canon string) bool {
	if !strings.HasPrefix(canon, "store new(") {
		return false
	}
	i := strings.LastIndex(canon, " = ")
	if i < 0 {
		return false
	}
	lhs, rhs := canon[:i], canon[i+3:]
	switch {
	case rhs == "0", rhs == "nil", rhs == "false", rhs == `""`, strings.HasPrefix(rhs, "zero("):
	default:
		return false
	}
	// only direct fields of the allocation: new(T).F (no index, no nested call)
	rest := lhs[len("store new("):]
	j := strings.Index(rest, ").")
	if j < 0 || strings.ContainsAny(rest[j+2:], "[(") {
		return false
	}
	for c := range effects {
		if strings.HasPrefix(c, lhs+" = ") || strings.HasPrefix(c, lhs+".") || strings.HasPrefix(c, lhs+"[") {
			return false
		}
	}
	// the allocation itself must still exist in the function
	alloc := lhs[len("store "):strings.Index(lhs, ").")+1]
	for c := range effects {
		if strings.Contains(c, alloc) {
			return true
		}
	}
	return false
}

//go:embed tables/pure_shapes.json
var pureShapesJSON []byte

// shapeOf: the complete observable shape of a small pure helper — every branch condition and every
// result form, in normal form.
func (r *Run) shapeOf(fn *ssa.Function) []string {
	set := map[string]bool{}
	for _, g := range r.P.Info(fn).guards {
		c := g.Cond
		// one polarity
		s, n := c.String(), c.Negate().String()
		if n < s {
			s = n
		}
		set["branch "+s] = true
	}
	for _, e := range r.P.Effects(fn) {
		switch {
		case e.Kind == "return":
			set[e.Canon] = true
		case strings.Contains(e.Canon, "interface{}") || strings.Contains(e.Canon, "[]any") || strings.Contains(e.Canon, "Log.") || strings.Contains(e.Canon, "log.") || strings.HasPrefix(e.Canon, "fmt."):
			// logging and its argument arrays
		case e.Kind == "call" && (strings.HasPrefix(e.Callee, "(*math/big.Int).") || strings.HasPrefix(e.Callee, "math/big.") || strings.HasPrefix(e.Callee, "common.M")):
			set["calc "+e.Canon] = true
		case e.Kind == "store":
			set[e.Canon] = true
		}
	}
	var out []string
	for s := range set {
		out = append(out, s)
	}
	sort.Strings(out)
	return out
}

// PureShapes: the listed arithmetic/time-window helpers have exactly the frozen branch conditions
// and result expressions. They are a few lines each and have no effects, so any difference is a
// different function (a changed modulus, operand or boundary), not a refactor.
func (r *Run) PureShapes(fnNames []string, why string) {
	var rows []tableRow
	if err := json.Unmarshal(pureShapesJSON, &rows); err != nil {
		panic("bad embedded table: " + err.Error())
	}
	want := map[string]map[string]bool{}
	for _, row := range rows {
		if want[row.F] == nil {
			want[row.F] = map[string]bool{}
		}
		want[row.F][row.C] = true
	}
	for _, name := range fnNames {
		fn := r.fn(name)
		if fn == nil {
			continue
		}
		file, line := r.P.FnPos(fn)
		w := want[name]
		if len(w) == 0 {
			r.viol("vacuous-rule", name, "pure shape", "no frozen shape for "+name, why, file, line)
			continue
		}
		got := map[string]bool{}
		for _, s := range r.shapeOf(fn) {
			got[s] = true
		}
		var missing, extra []string
		for s := range w {
			if !got[s] {
				missing = append(missing, s)
			}
		}
		for s := range got {
			if !w[s] {
				extra = append(extra, s)
			}
		}
		sort.Strings(missing)
		sort.Strings(extra)
		if len(missing)+len(extra) > 0 {
			r.viol("K4-pure-shape", name, "branch conditions and result forms", fmt.Sprintf("%s computes something else now; gone: %v; new: %v", name, missing, extra), why, file, line)
			continue
		}
		r.pass("K4-pure-shape", name, "branch conditions and result forms", fmt.Sprintf("%d forms", len(w)), why, file, line)
	}
}

//go:embed tables/success_returns.json
var successReturnsJSON []byte

// successForms: every result form fn can return without failing.
func (r *Run) successForms(fn *ssa.Function) []string {
	fi := r.P.Info(fn)
	set := map[string]bool{}
	for _, e := range r.P.Effects(fn) {
		if e.Kind != "return" {
			continue
		}
		b := e.Instr.Block()
		if fi.failExit[b] {
			continue
		}
		// a predicate returning the comparison itself can return true: one form with `return true`
		if res := fn.Signature.Results(); res.Len() == 1 && isBool(res.At(0).Type()) {
			if ret, ok := e.Instr.(*ssa.Return); ok && len(ret.Results) == 1 {
				v := retOperand(ret, 0)
				if _, isC := v.(*ssa.Const); !isC {
					if c := r.P.Env(fn).condOf(v); c.Op != "T" && c.Op != "F" {
						set["return true"] = true
						continue
					}
				}
			}
		}
		set[e.Canon] = true
	}
	var out []string
	for s := range set {
		out = append(out, s)
	}
	sort.Strings(out)
	return out
}

// SuccessReturnTable: a function of the selected files has no way to succeed that it did not have
// on the reviewed tree — no new fast path, early `return nil`, shortcut on a cached value, or
// success under a new condition. (Ways to succeed that disappeared are not reported here: more
// rejection is the business of the other rules.)
func (r *Run) SuccessReturnTable(keep func(tableRow) bool, why string) int {
	var rows []tableRow
	if err := json.Unmarshal(successReturnsJSON, &rows); err != nil {
		panic("bad embedded table: " + err.Error())
	}
	want := map[string]map[string]bool{}
	order := []string{}
	for _, row := range rows {
		if !keep(row) {
			continue
		}
		if want[row.F] == nil {
			want[row.F] = map[string]bool{}
			order = append(order, row.F)
		}
		want[row.F][row.C] = true
	}
	n := 0
	for _, name := range order {
		fn := r.P.Fn(name)
		if fn == nil || fn.Blocks == nil {
			continue // a function that no longer exists has no way to succeed
		}
		n++
		file, line := r.P.FnPos(fn)
		var extra []string
		for _, s := range r.successForms(fn) {
			if !want[name][s] && !r.sameSuccessModuloTail(fn, s, want[name]) {
				extra = append(extra, s)
			}
		}
		if len(extra) > 0 {
			r.viol("K2-new-success-path", name, "ways to succeed", fmt.Sprintf("%s can now succeed in a way it could not on the reviewed tree: %s", name, strings.Join(extra, " ; ")), why, file, line)
			continue
		}
		r.pass("K2-new-success-path", name, "ways to succeed", fmt.Sprintf("%d frozen forms", len(want[name])), why, file, line)
	}
	if n == 0 {
		r.viol("vacuous-rule", "", "success-return table", "no table row selected", why, "", 0)
	}
	return n
}

func filePrefix(prefixes ...string) func(tableRow) bool {
	return func(t tableRow) bool {
		for _, p := range prefixes {
			if strings.HasPrefix(t.File, p) {
				return true
			}
		}
		return false
	}
}

// successScope: the files whose functions carry each property (anchors and the layers below them).
var successScope = map[string][]string{
	"C01": {"vm/", "verifier/", "chain/"},
	"C02": {"vm/", "verifier/", "chain/", "common/db/", "consensus/", "protocol/chain_bridge.go"},
	"C03": {"vm/vm.go", "vm/supervisor.go", "vm/plasma.go", "vm/vm_context/", "verifier/", "chain/", "wallet/crypto.go"},
	"C04": {"vm/vm.go", "vm/supervisor.go", "vm/vm_context/", "verifier/", "chain/"},
	"C05": {"verifier/", "consensus/", "pillar/", "chain/momentum/", "wallet/crypto.go", "common/types/pillar"},
	"C06": {"chain/", "common/db/", "consensus/"},
	"C07": {"common/db/", "chain/momentum/ledger_store.go", "chain/momentum/store.go", "chain/account/store.go"},
	"C08": {"common/db/"},
	"C09": {"vm/", "pillar/"},
	"C10": {"vm/embedded/", "vm/vm.go", "vm/supervisor.go"},
	"C11": {"vm/embedded/implementation/", "vm/constants/", "consensus/"},
	"C12": {"vm/vm.go", "vm/plasma.go", "vm/supervisor.go", "pow/", "verifier/", "vm/constants/"},
	"C13": {"vm/vm.go", "vm/supervisor.go", "verifier/", "chain/nom/", "vm/abi/", "wallet/crypto.go", "common/types/", "common/crypto/"},
	"C14": {"chain/", "protocol/chain_bridge.go", "common/db/versioned_db.go", "common/db/memdb.go"},
	"C15": {"protocol/", "p2p/", "chain/momentum/", "rpc/server/"},
	"C16": {"protocol/", "chain/momentum_pool.go", "chain/account_pool.go", "chain/momentum/", "chain/chain.go", "vm/supervisor.go", "vm/vm.go", "vm/momentum_vm.go", "verifier/account_block.go", "verifier/momentum.go", "consensus/", "wallet/crypto.go"},
	"C17": {"vm/embedded/", "chain/momentum/", "common/types/"},
	"C18": {"rpc/", "chain/nom/", "chain/account/mailbox/", "common/bytes.go", "common/types/", "common/hexutil"},
	"C19": {"wallet/"},
	"C20": {"chain/genesis/", "chain/chain.go", "chain/momentum/"},
}

func runWithCommon(def *propDef, r *Run) {
	def.Run(r)
	// the generated tables are frozen from the default build configuration; other configurations
	// (thorough tier: -tags libznn) select a few different files and are checked by the property rows only
	if sc := successScope[def.ID]; len(sc) > 0 && *flagTags == "" {
		r.SuccessReturnTable(filePrefix(sc...), "a function hands out, on success, only the result forms it handed out on the reviewed tree: a new one (a memoised value, the configured instead of the stored record, a shortcut result) is a new accepting path")
		r.MustPassGuardTable(filePrefix(sc...), "the rules of this property pin what the accepting paths check; a new accepting path (fast path, early success) that gets around a guard bypasses them")
		if def.ID == "C15" || def.ID == "C14" || def.ID == "C18" || def.ID == "C09" {
			r.ChanMakeTable(filePrefix(sc...), "buffer sizes of the channels created on the network, pool, RPC and producer paths")
		}
		r.AllGuardTable(filePrefix(sc...), "every rejection performed on the reviewed tree is still performed")
		r.AllEffectTable(filePrefix(sc...), "every call (with its arguments) and every non-local store performed on the reviewed tree is still performed")
		r.PlainBranchTable(filePrefix(sc...), "no new or altered non-rejecting fork")
		r.EffectContextTable(filePrefix(sc...), "where an effect stands relative to the conditions and checks around it")
		r.MustPassEffectTable(filePrefix(sc...), "and what they do: a new accepting path that skips a state change (record saved, balance moved, marker set, cache purged, nested verification) leaves the ledger half-updated")
	}
}

//go:embed tables/mustpass_guards.json
var mustPassGuardsJSON []byte

// mustPassGuards: the rejecting guards of fn that every non-failing exit passes (their accepting
// edge is on every path from the entry to every success return, within the guard's context).
func (r *Run) mustPassGuards(fn *ssa.Function) []string {
	fi := r.P.Info(fn)
	set := map[string]bool{}
	for _, g := range fi.guards {
		if g.Reject == "" {
			continue
		}
		all := true
		for b := range fi.okBlock {
			if !g.DominatesInContext(b) {
				all = false
				break
			}
		}
		if all && len(fi.okBlock) > 0 {
			set[g.Full()] = true
		}
	}
	var out []string
	for s := range set {
		out = append(out, s)
	}
	sort.Strings(out)
	return out
}

// MustPassGuardTable: a rejecting guard that stood on every accepting path of its function on the
// reviewed tree still stands on every accepting path: no new early success, fast path or reordered
// return gets around it. (A guard that is no longer present under the same normal form is the
// business of the guard rules, not of this one.)
func (r *Run) MustPassGuardTable(keep func(tableRow) bool, why string) int {
	var rows []tableRow
	if err := json.Unmarshal(mustPassGuardsJSON, &rows); err != nil {
		panic("bad embedded table: " + err.Error())
	}
	n, absent := 0, 0
	for _, row := range rows {
		if !keep(row) {
			continue
		}
		fn := r.P.Fn(row.F)
		if fn == nil || fn.Blocks == nil {
			continue
		}
		fi := r.P.Info(fn)
		var g0 *Guard
		for _, g := range fi.guards {
			if g.Reject != "" && g.Full() == row.C {
				g0 = g
			}
		}
		if g0 == nil {
			absent++
			continue
		}
		n++
		bad := false
		for b := range fi.okBlock {
			if !g0.DominatesInContext(b) {
				f2, l2 := r.P.Pos(lastInstr(b).Pos())
				r.viol("K2-guard-bypassed", row.F, "reject-if "+row.C+" on every accepting path", fmt.Sprintf("%s can now return successfully at %s:%d without passing the guard `reject-if %s` (%s:%d), which every accepting path passed on the reviewed tree", row.F, f2, l2, row.C, g0.File, g0.Line), why, f2, l2)
				bad = true
				break
			}
		}
		if !bad {
			r.pass("K2-guard-bypassed", row.F, "reject-if "+row.C+" on every accepting path", "", why, g0.File, g0.Line)
		}
	}
	if n == 0 {
		r.viol("vacuous-rule", "", "must-pass guard table", "no table row matched", why, "", 0)
	}
	if absent > 0 {
		r.Notes = append(r.Notes, fmt.Sprintf("must-pass guard table: %d frozen guard(s) are no longer present under the same normal form (left to the guard rules)", absent))
	}
	return n
}

func splitTop(s string) []string {
	var parts []string
	depth, last := 0, 0
	for j, ch := range s {
		switch ch {
		case '(', '[':
			depth++
		case ')', ']':
			depth--
		case ',':
			if depth == 0 {
				parts = append(parts, strings.TrimSpace(s[last:j]))
				last = j + 1
			}
		}
	}
	return append(parts, strings.TrimSpace(s[last:]))
}

// sameSuccessModuloTail: `return …, f()` and `if err := f(); err != nil { return …, err }; return …, nil`
// are the same accepting path. A new form is accepted when it differs from a frozen one only in
// spelling the error result as the still-unchecked call (frozen: nil), or as nil after that call was
// checked (frozen: the call).
func (r *Run) sameSuccessModuloTail(fn *ssa.Function, form string, frozen map[string]bool) bool {
	ei := errResultIndex(fn.Signature)
	if ei < 0 || !strings.HasPrefix(form, "return ") {
		return false
	}
	comps := splitTop(strings.TrimPrefix(form, "return "))
	if ei >= len(comps) {
		return false
	}
	join := func(c []string) string { return "return " + strings.Join(c, ", ") }
	if comps[ei] != "nil" {
		c2 := append([]string(nil), comps...)
		c2[ei] = "nil"
		return frozen[join(c2)]
	}
	fi := r.P.Info(fn)
	for f := range frozen {
		fc := splitTop(strings.TrimPrefix(f, "return "))
		if len(fc) != len(comps) || fc[ei] == "nil" {
			continue
		}
		same := true
		for i := range fc {
			if i != ei && fc[i] != comps[i] {
				same = false
			}
		}
		if !same {
			continue
		}
		for _, g := range fi.guards {
			if g.Reject == "" || g.RejCond.Op != "ne" || g.RejCond.R == nil {
				continue
			}
			l, rr := g.RejCond.L.String(), g.RejCond.R.String()
			if (l == "nil" && rr == fc[ei]) || (rr == "nil" && l == fc[ei]) {
				return true
			}
		}
	}
	return false
}

//go:embed tables/mustpass_effects.json
var mustPassEffectsJSON []byte

// mustPassEffects: state-changing effects (recordEffect: stores into records and blocks, Save/Delete,
// balance moves, big.Int mutation) and calls to module functions that every non-failing exit of fn
// passes (the effect's block dominates every success return).
func (r *Run) mustPassEffects(fn *ssa.Function) map[string]*Effect {
	fi := r.P.Info(fn)
	out := map[string]*Effect{}
	if len(fi.okBlock) == 0 {
		return out
	}
	for _, e := range r.P.Effects(fn) {
		if e.Kind == "return" {
			continue
		}
		if !(recordEffect(e) || (e.Kind == "call" && r.P.Fn(e.Callee) != nil) || (e.Kind == "call" && strings.HasPrefix(e.Callee, "iface:") && !strings.Contains(e.Callee, "Logger"))) {
			continue
		}
		if strings.HasPrefix(e.Canon, "defer ") {
			continue
		}
		all := true
		for b := range fi.okBlock {
			if !e.Instr.Block().Dominates(b) {
				all = false
				break
			}
		}
		if all {
			out[e.Canon] = e
		}
	}
	return out
}

// MustPassEffectTable: an effect that every accepting path of its function performed on the reviewed
// tree is still performed on every accepting path (if the function still has it at all): no new
// early success skips a Save, a balance move, a marker, a purge or a nested check.
func (r *Run) MustPassEffectTable(keep func(tableRow) bool, why string) int {
	var rows []tableRow
	if err := json.Unmarshal(mustPassEffectsJSON, &rows); err != nil {
		panic("bad embedded table: " + err.Error())
	}
	n, absent := 0, 0
	cache := map[string]map[string]*Effect{}
	all := map[string]map[string]bool{}
	for _, row := range rows {
		if !keep(row) {
			continue
		}
		fn := r.P.Fn(row.F)
		if fn == nil || fn.Blocks == nil {
			continue
		}
		if cache[row.F] == nil {
			cache[row.F] = r.mustPassEffects(fn)
			all[row.F] = r.P.EffectSetInlined(fn)
		}
		if !all[row.F][row.C] {
			if isRecordEffectCanon(row.C) && !implicitZeroStore(all[row.F], row.C) {
				n++
				file, line := r.P.FnPos(fn)
				r.viol("K4-effect", row.F, row.C, fmt.Sprintf("%s no longer performs `%s`, a state change every accepting path performed on the reviewed tree", row.F, row.C), why, file, line)
				continue
			}
			absent++
			continue
		}
		n++
		if e := cache[row.F][row.C]; e != nil {
			r.pass("K2-effect-bypassed", row.F, row.C+" on every accepting path", "", why, e.File, e.Line)
			continue
		}
		own := false
		for _, e := range r.P.Effects(fn) {
			if e.Canon == row.C {
				own = true
			}
		}
		if !own {
			// performed through a helper now: which paths pass it is the helper's call site's business
			absent++
			continue
		}
		file, line := r.P.FnPos(fn)
		fi := r.P.Info(fn)
		for _, e := range r.P.Effects(fn) {
			if e.Canon != row.C {
				continue
			}
			for b := range fi.okBlock {
				if !e.Instr.Block().Dominates(b) {
					file, line = r.P.Pos(lastInstr(b).Pos())
				}
			}
		}
		r.viol("K2-effect-bypassed", row.F, row.C+" on every accepting path", fmt.Sprintf("%s can now return successfully (%s:%d) without performing `%s`, which every accepting path performed on the reviewed tree", row.F, file, line, row.C), why, file, line)
	}
	if n == 0 {
		r.viol("vacuous-rule", "", "must-pass effect table", "no table row matched", why, "", 0)
	}
	if absent > 0 {
		r.Notes = append(r.Notes, fmt.Sprintf("must-pass effect table: %d frozen effect(s) are no longer present under the same normal form (left to the effect rules)", absent))
	}
	return n
}

// isRecordEffectCanon: the canonical text is a store, a Save/Delete of a record, a balance move or a
// big.Int mutation (the recordEffect classes), as opposed to a plain call.
func isRecordEffectCanon(c string) bool {
	if strings.HasPrefix(c, "store ") {
		return !strings.HasPrefix(c, "store new([")
	}
	for _, m := range []string{".Save(", ".Delete(", ".AddBalance(", ".SubBalance(", ".SetBalance(", "addReward(", ".MarkAsReceived(", ".MarkAsUnreceived(", ".Purge()", ".Remove("} {
		if strings.Contains(c, m) {
			return true
		}
	}
	return false
}

//go:embed tables/all_guards.json
var allGuardsJSON []byte

//go:embed tables/plain_branches.json
var plainBranchesJSON []byte

// AllGuardTable: every rejection a function of the selected files performed on the reviewed tree is
// still performed (in the function, in a helper it calls and propagates, or as a tail return).
func (r *Run) AllGuardTable(keep func(tableRow) bool, why string) int {
	var rows []tableRow
	if err := json.Unmarshal(allGuardsJSON, &rows); err != nil {
		panic("bad embedded table: " + err.Error())
	}
	n := 0
	for _, row := range rows {
		if !keep(row) || r.P.Fn(row.F) == nil {
			continue
		}
		n++
		r.Guard(row.F, row.C, why)
	}
	if n == 0 {
		r.viol("vacuous-rule", "", "guard table (all)", "no table row selected", why, "", 0)
	}
	return n
}

// loggingOnlyFork: the blocks reachable only through one edge of the branch (before the paths
// rejoin) do nothing but log — calls to loggers/fmt printing and the stores that fill their argument
// arrays. Such a fork does not change what is accepted or done.
func loggingOnlyFork(g *Guard) bool {
	b := g.Block
	region := map[*ssa.BasicBlock]bool{}
	logs := 0
	for i := 0; i < 2; i++ {
		for _, x := range g.Fn.Blocks {
			if x == g.Fn.Recover || (len(x.Preds) == 0 && x != g.Fn.Blocks[0]) || !edgeDominates(b, b.Succs[i], x) {
				continue
			}
			region[x] = true
			for _, in := range x.Instrs {
				if c, ok := in.(*ssa.Call); ok {
					if _, isB := c.Call.Value.(*ssa.Builtin); !isB {
						logs++
					}
				}
			}
		}
	}
	if len(region) == 0 || logs == 0 {
		return false // a fork with nothing but value selection is not "only logging"
	}
	// the fork must not select values: no phi merges different values along edges from the region or from b
	for _, x := range g.Fn.Blocks {
		for _, in := range x.Instrs {
			phi, ok := in.(*ssa.Phi)
			if !ok {
				break
			}
			var first ssa.Value
			for k, pr := range x.Preds {
				if !region[pr] && pr != b {
					continue
				}
				if first == nil {
					first = phi.Edges[k]
				} else if phi.Edges[k] != first {
					return false
				}
			}
		}
	}
	for i := 0; i < 2; i++ {
		start := b.Succs[i]
		// region: blocks dominated by the edge (b → start)
		for _, x := range g.Fn.Blocks {
			if x == g.Fn.Recover || (len(x.Preds) == 0 && x != g.Fn.Blocks[0]) || !edgeDominates(b, start, x) {
				continue
			}
			for _, in := range x.Instrs {
				switch y := in.(type) {
				case *ssa.Call:
					if bi, ok := y.Call.Value.(*ssa.Builtin); ok && (bi.Name() == "len" || bi.Name() == "cap") {
						continue
					}
					callee := ""
					if y.Call.IsInvoke() {
						callee = shortType(y.Call.Value.Type()) + "." + y.Call.Method.Name()
					} else if f := y.Call.StaticCallee(); f != nil {
						callee = f.String()
					}
					if strings.Contains(callee, "Logger.") || strings.Contains(callee, "log15") || strings.HasPrefix(callee, "fmt.Print") || strings.HasPrefix(callee, "fmt.Sprint") || strings.Contains(callee, "runtime/debug.Stack") {
						continue
					}
					if os.Getenv("ZDBG") != "" {
						fmt.Fprintln(os.Stderr, "DBG call", callee, y)
					}
					return false
				case *ssa.Store:
					if isLocalAddr(y.Addr) {
						continue
					}
					if ia, ok := y.Addr.(*ssa.IndexAddr); ok && isLocalAddr(ia.X) {
						continue
					}
					if os.Getenv("ZDBG") != "" {
						fmt.Fprintln(os.Stderr, "DBG store", g.Fn.Name(), g.Cond, in)
					}
					return false
				case *ssa.Return, *ssa.Panic, *ssa.Go, *ssa.Defer, *ssa.Send, *ssa.MapUpdate, *ssa.RunDefers:
					if os.Getenv("ZDBG") != "" {
						fmt.Fprintln(os.Stderr, "DBG other", g.Fn.Name(), g.Cond, in)
					}
					return false
				}
			}
		}
	}
	return true
}

func plainBranches(r *Run, fn *ssa.Function) []string {
	set := map[string]bool{}
	var collect func(f *ssa.Function, subst func(Cond) Cond, depth int)
	collect = func(f *ssa.Function, subst func(Cond) Cond, depth int) {
		for _, g := range r.P.Info(f).guards {
			if g.Reject != "" || g.Block.Succs[0] == g.Block.Succs[1] {
				continue
			}
			if loggingOnlyFork(g) {
				continue
			}
			// error plumbing (comparing an error value with nil or a sentinel) is not a data condition:
			// nested, flattened and switch spellings of one error-handling cascade fork differently
			if bo, ok := g.If.Cond.(*ssa.BinOp); ok && (isErrorType(bo.X.Type()) || isErrorType(bo.Y.Type())) {
				continue
			}
			c := subst(g.Cond)
			s, n := c.String(), c.Negate().String()
			if n < s {
				s = n
			}
			set[s] = true
		}
		if knownFuncs == nil || depth >= 2 {
			return
		}
		// the forks of a helper that is new relative to the reviewed tree are forks of its caller, in
		// the caller's terms: a skip or fast path added while "extracting" a block is a new branch
		env := r.P.Env(f)
		for _, b := range f.Blocks {
			for _, in := range b.Instrs {
				ci, ok := in.(ssa.CallInstruction)
				if !ok || !env.isNewHelper(ci.Common()) {
					continue
				}
				h := ci.Common().StaticCallee()
				args := env.callPath(ci.Common()).Args
				hasRecv := h.Signature.Recv() != nil
				collect(h, func(c Cond) Cond { return subst(c.Subst(args, hasRecv)) }, depth+1)
			}
		}
	}
	collect(fn, func(c Cond) Cond { return c }, 0)
	var out []string
	for s := range set {
		out = append(out, s)
	}
	sort.Strings(out)
	return out
}

// PlainBranchTable: a function of the selected files forks, without rejecting, only on the conditions
// it forked on on the reviewed tree. A new or altered non-rejecting condition (an extra disjunct on
// a skip, a new fast-path test, a changed boundary on a mode switch) changes what is accepted or
// done for the inputs on its new side.
func (r *Run) PlainBranchTable(keep func(tableRow) bool, why string) int {
	var rows []tableRow
	if err := json.Unmarshal(plainBranchesJSON, &rows); err != nil {
		panic("bad embedded table: " + err.Error())
	}
	want := map[string]map[string]bool{}
	var order []string
	for _, row := range rows {
		if !keep(row) {
			continue
		}
		if want[row.F] == nil {
			want[row.F] = map[string]bool{}
			order = append(order, row.F)
		}
		if row.C != "" {
			want[row.F][row.C] = true
		}
	}
	n := 0
	for _, name := range order {
		fn := r.P.Fn(name)
		if fn == nil || fn.Blocks == nil {
			continue
		}
		n++
		file, line := r.P.FnPos(fn)
		var extra []string
		for _, c := range plainBranches(r, fn) {
			if !want[name][c] {
				extra = append(extra, c)
			}
		}
		if len(extra) > 0 {
			r.viol("K3-new-branch", name, "non-rejecting branch conditions", fmt.Sprintf("%s now forks (without rejecting) on a condition it did not fork on on the reviewed tree: %s", name, strings.Join(extra, " ; ")), why, file, line)
			continue
		}
		r.pass("K3-new-branch", name, "non-rejecting branch conditions", fmt.Sprintf("%d frozen", len(want[name])), why, file, line)
	}
	if n == 0 {
		r.viol("vacuous-rule", "", "plain branch table", "no table row selected", why, "", 0)
	}
	return n
}

//go:embed tables/chan_makes.json
var chanMakesJSON []byte

// chanMakes: every channel a function creates, with its element type and buffer size.
func chanMakes(r *Run, fn *ssa.Function) []string {
	set := map[string]int{}
	var visit func(f *ssa.Function)
	visit = func(f *ssa.Function) {
		for _, b := range f.Blocks {
			for _, in := range b.Instrs {
				if mc, ok := in.(*ssa.MakeChan); ok {
					set["make("+shortType(mc.Type())+","+r.P.Env(f).of(mc.Size).String()+")"]++
				}
			}
		}
		for _, a := range f.AnonFuncs {
			visit(a)
		}
	}
	visit(fn)
	var out []string
	for s, k := range set {
		out = append(out, fmt.Sprintf("%s x%d", s, k))
	}
	sort.Strings(out)
	return out
}

// ChanMakeTable: the channels the selected functions create keep their buffer sizes. A result or
// error channel that loses its buffer blocks its sender for ever once the receiver has gone; a
// queue that loses its bound grows with what peers send.
func (r *Run) ChanMakeTable(keep func(tableRow) bool, why string) int {
	var rows []tableRow
	if err := json.Unmarshal(chanMakesJSON, &rows); err != nil {
		panic("bad embedded table: " + err.Error())
	}
	want := map[string]map[string]bool{}
	var order []string
	for _, row := range rows {
		if !keep(row) {
			continue
		}
		if want[row.F] == nil {
			want[row.F] = map[string]bool{}
			order = append(order, row.F)
		}
		want[row.F][row.C] = true
	}
	n := 0
	for _, name := range order {
		fn := r.P.Fn(name)
		if fn == nil || fn.Blocks == nil {
			continue
		}
		n++
		file, line := r.P.FnPos(fn)
		got := map[string]bool{}
		for _, c := range chanMakes(r, fn) {
			got[c] = true
		}
		var missing, extra []string
		for c := range want[name] {
			if !got[c] {
				missing = append(missing, c)
			}
		}
		for c := range got {
			if !want[name][c] {
				extra = append(extra, c)
			}
		}
		sort.Strings(missing)
		sort.Strings(extra)
		if len(missing) > 0 && len(extra) > 0 {
			r.viol("K6-chan-capacity", name, "channels created", fmt.Sprintf("%s creates its channels differently: was %v, now %v", name, missing, extra), why, file, line)
			continue
		}
		r.pass("K6-chan-capacity", name, "channels created", fmt.Sprintf("%d frozen", len(want[name])), why, file, line)
	}
	return n
}

//go:embed tables/all_effects.json
var allEffectsJSON []byte

// tableEffect selects the effects frozen per function: every call other than logging, message
// construction and pure builtins, every store to non-local memory (logging argument arrays
// excluded), with go/defer forms and lock operations.
func tableEffect(e *Effect) bool {
	c := e.Canon
	if e.Kind == "return" {
		return false
	}
	if strings.Contains(c, "interface{}") || strings.Contains(c, "[]any") || strings.Contains(c, "]any)") || strings.Contains(c, "Log.") || strings.Contains(c, "log.") || strings.Contains(e.Callee, "Logger") {
		return false
	}
	if e.Kind == "store" {
		return true
	}
	switch {
	case strings.HasPrefix(e.Callee, "builtin:"):
		switch strings.TrimPrefix(e.Callee, "builtin:") {
		case "delete", "copy", "close", "panic", "recover":
			return true
		}
		return false
	case strings.HasPrefix(e.Callee, "fmt."), strings.HasPrefix(e.Callee, "github.com/pkg/errors."), strings.HasPrefix(e.Callee, "errors."), strings.HasPrefix(e.Callee, "runtime/debug."), strings.HasPrefix(e.Callee, "strings."), strings.HasPrefix(e.Callee, "strconv.Itoa"):
		return false
	case strings.HasPrefix(e.Callee, "(time.Time)."), strings.HasPrefix(e.Callee, "(*time.Time)."), strings.HasPrefix(e.Callee, "(time.Duration)."), strings.HasPrefix(e.Callee, "math."),
		e.Callee == "(*math/big.Int).Bytes", e.Callee == "(*math/big.Int).BitLen", e.Callee == "(*math/big.Int).String", e.Callee == "(*math/big.Int).Uint64", e.Callee == "(*math/big.Int).Int64", e.Callee == "(*math/big.Int).IsUint64", e.Callee == "(*math/big.Int).IsInt64":
		// getters of value types: their results matter where they are used (guards, stores, arguments), not as effects
		return false
	case strings.HasPrefix(e.Callee, "bytes.Equal"), strings.HasPrefix(e.Callee, "bytes.Compare"), e.Callee == "(*math/big.Int).Cmp", e.Callee == "(*math/big.Int).Sign", e.Callee == "reflect.DeepEqual":
		// pure comparisons: what they decide is in the guards and branches; which spelling
		// (Equal / Compare != 0, Cmp == -1 / Sign() < 0) is not an effect
		return false
	case e.Callee == "dyn" || e.Callee == "":
		return true
	}
	return true
}

// AllEffectTable: every call (with its canonical arguments) and every non-local store a function of
// the selected files performed on the reviewed tree is still there: no dropped call, wrong argument,
// swapped operand, changed constant, lost unlock or defer.
func (r *Run) AllEffectTable(keep func(tableRow) bool, why string) int {
	var rows []tableRow
	if err := json.Unmarshal(allEffectsJSON, &rows); err != nil {
		panic("bad embedded table: " + err.Error())
	}
	n := 0
	sets := map[string]map[string]bool{}
	for _, row := range rows {
		if !keep(row) {
			continue
		}
		fn := r.P.Fn(row.F)
		if fn == nil || fn.Blocks == nil {
			continue
		}
		set := sets[row.F]
		if set == nil {
			set = r.P.EffectSetInlined(fn)
			sets[row.F] = set
		}
		n++
		file, line := r.P.FnPos(fn)
		if set[row.C] || implicitZeroStore(set, row.C) {
			r.pass("K4-effect", row.F, row.C, "", why, file, line)
			continue
		}
		head := row.C
		if i := strings.Index(head, " = "); i > 0 && strings.HasPrefix(head, "store ") {
			head = head[:i]
		} else if i := strings.Index(head, "("); i > 0 {
			head = head[:i]
		}
		var near []string
		for c := range set {
			if strings.HasPrefix(c, head) {
				near = append(near, c)
			}
		}
		sort.Strings(near)
		d := row.F + " no longer performs `" + row.C + "`"
		if len(near) > 0 && len(near) < 4 {
			d += "; it now has: " + strings.Join(near, " ; ")
		}
		r.viol("K4-effect", row.F, row.C, d, why, file, line)
	}
	if n == 0 {
		r.viol("vacuous-rule", "", "effect table (all)", "no table row selected", why, "", 0)
	}
	return n
}

// commonExplain describes the generated regression tables every property also runs over its scope.
func commonExplain(id string) string {
	sc := successScope[id]
	if len(sc) == 0 {
		return ""
	}
	return " In addition, over the files this property depends on (" + strings.Join(sc, ", ") + "), generated regression tables frozen from the reviewed tree are re-checked against the current source: every rejecting guard is still performed (helper extraction and tail returns accepted), no new or altered non-rejecting branch condition (logging-only forks ignored), no new success result form, every guard and state-changing effect that stood on every accepting path still does, every call (with canonical arguments) and non-local store is still performed (one level of callee inlining), channel capacities unchanged. These tables are a regression reference (they do not claim the frozen code is right)."
}

//go:embed tables/effect_context.json
var effectContextJSON []byte

type ctxRow struct {
	F      string   `json:"f"`
	C      string   `json:"c"`      // effect, canonical
	Ctx    []string `json:"ctx"`    // alternative contexts (each: sorted non-rejecting conditions joined by " & ")
	Guards []string `json:"guards"` // rejecting guards whose accepting edge every occurrence of the effect is behind
	File   string   `json:"file"`
}

// effectContexts: for every table effect of fn, the contexts it executes under and the rejecting
// guards it is behind.
func (r *Run) effectContexts(fn *ssa.Function) map[string]*ctxRow {
	fi := r.P.Info(fn)
	out := map[string]*ctxRow{}
	first := map[string]bool{}
	for _, e := range r.P.Effects(fn) {
		if !tableEffect(e) {
			continue
		}
		// where a call stands matters for calls into the module (and through interfaces, function
		// values, and pointer-receiver methods of library objects — timers, batches, caches, locks, big.Int);
		// a package-level or value-receiver library call (time.Time getters, math, encoding, …) can be
		// hoisted or sunk freely
		if e.Kind == "call" && !(r.P.Fn(e.Callee) != nil || strings.HasPrefix(e.Callee, "iface:") || e.Callee == "dyn" || e.Callee == "" || strings.HasPrefix(e.Callee, "(*sync.") || strings.HasPrefix(e.Callee, "builtin:") || strings.HasPrefix(e.Callee, "(*") || strings.HasPrefix(e.Callee, "math/big.New") || strings.HasPrefix(e.Canon, "defer ") || strings.HasPrefix(e.Canon, "go ")) {
			continue
		}
		b := e.Instr.Block()
		var cs []string
		seen := map[string]bool{}
		for _, c := range r.dataCtx(fn, b) {
			if s := c.String(); !seen[s] {
				seen[s] = true
				cs = append(cs, s)
			}
		}
		// loop membership: an allocation or call hoisted out of (or pushed into) a loop body is a
		// different program even when its canonical form is the same (one shared object vs one per element)
		depth := 0
		for _, g := range fi.guards {
			if !isLoopHeader(g.Block) || g.Block.Succs[0] == g.Block.Succs[1] {
				continue
			}
			for i := 0; i < 2; i++ {
				if g.Block.Succs[i].Dominates(b) && g.Block.Dominates(g.Block.Succs[i]) && blockReaches(b, g.Block) {
					// which loop is identified by nesting only: the loop condition's spelling
					// (range over s[:n] vs index < n) is not part of the context
					depth++
				}
			}
		}
		if depth > 0 {
			cs = append(cs, fmt.Sprintf("in-loop×%d", depth))
		}
		sort.Strings(cs)
		ctx := strings.Join(cs, " & ")
		row := out[e.Canon]
		if row == nil {
			row = &ctxRow{F: r.P.FuncName(fn), C: e.Canon}
			out[e.Canon] = row
		}
		have := false
		for _, x := range row.Ctx {
			if x == ctx {
				have = true
			}
		}
		if !have {
			row.Ctx = append(row.Ctx, ctx)
			sort.Strings(row.Ctx)
		}
		gs := map[string]bool{}
		for _, g := range fi.guards {
			if g.Reject != "" && g.DominatesInContext(b) && g.Block != b {
				gs[g.Full()] = true
			}
		}
		if !first[e.Canon] {
			first[e.Canon] = true
			for g := range gs {
				row.Guards = append(row.Guards, g)
			}
		} else {
			var keep []string
			for _, g := range row.Guards {
				if gs[g] {
					keep = append(keep, g)
				}
			}
			row.Guards = keep
		}
		sort.Strings(row.Guards)
	}
	return out
}

// EffectContextTable: an effect that is still performed is performed under a context it was
// performed under on the reviewed tree, and behind the rejecting guards it was behind: no statement
// moved out of (or into) a condition, no effect moved in front of a check.
func (r *Run) EffectContextTable(keep func(tableRow) bool, why string) int {
	var rows []ctxRow
	if err := json.Unmarshal(effectContextJSON, &rows); err != nil {
		panic("bad embedded table: " + err.Error())
	}
	n := 0
	cache := map[string]map[string]*ctxRow{}
	for _, row := range rows {
		if !keep(tableRow{F: row.F, C: row.C, File: row.File}) {
			continue
		}
		fn := r.P.Fn(row.F)
		if fn == nil || fn.Blocks == nil {
			continue
		}
		if cache[row.F] == nil {
			cache[row.F] = r.effectContexts(fn)
		}
		cur := cache[row.F][row.C]
		if cur == nil {
			continue // no longer performed here: the effect tables' business
		}
		n++
		file, line := r.P.FnPos(fn)
		for _, e := range r.P.Effects(fn) {
			if e.Canon == row.C {
				file, line = e.File, e.Line
				break
			}
		}
		bad := ""
		frozen := map[string]bool{}
		for _, c := range row.Ctx {
			frozen[c] = true
		}
		for _, c := range cur.Ctx {
			if !frozen[c] {
				bad = fmt.Sprintf("`%s` now executes under `%s`; on the reviewed tree it executed under: `%s`", row.C, c, strings.Join(row.Ctx, "` or `"))
			}
		}
		if bad == "" {
			have := map[string]bool{}
			for _, g := range cur.Guards {
				have[g] = true
			}
			present := map[string]bool{}
			for _, g := range r.P.Info(fn).guards {
				if g.Reject != "" {
					present[g.Full()] = true
				}
			}
			for _, g := range row.Guards {
				if present[g] && !have[g] {
					bad = fmt.Sprintf("`%s` can now be reached without passing the guard `reject-if %s`, which stood in front of it on the reviewed tree", row.C, g)
				}
			}
		}
		if bad != "" {
			r.viol("K2-effect-context", row.F, row.C+" context", row.F+": "+bad, why, file, line)
			continue
		}
		r.pass("K2-effect-context", row.F, row.C+" context", "", why, file, line)
	}
	if n == 0 {
		r.viol("vacuous-rule", "", "effect context table", "no table row matched", why, "", 0)
	}
	return n
}

//go:embed tables/known_funcs.json
var knownFuncsJSON []byte

func init() {
	var names []string
	if err := json.Unmarshal(knownFuncsJSON, &names); err == nil && len(names) > 0 {
		knownFuncs = map[string]bool{}
		for _, n := range names {
			knownFuncs[n] = true
		}
	}
}

// dataCtx: blockCtx without the error plumbing — branches that compare an error value (with nil or
// with a sentinel). `if err != nil { if err == ErrNotFound { return nil, nil }; return nil, err }`
// and its flattened or switch forms put the code after them under different such conditions while
// meaning the same; what the effect context pins is the data conditions.
func (r *Run) dataCtx(fn *ssa.Function, b *ssa.BasicBlock) []Cond {
	fi := r.P.Info(fn)
	var out []Cond
	for _, c := range fi.guards {
		if c.Reject != "" || c.Block.Succs[0] == c.Block.Succs[1] || isLoopHeader(c.Block) {
			continue
		}
		if bo, ok := c.If.Cond.(*ssa.BinOp); ok && (isErrorType(bo.X.Type()) || isErrorType(bo.Y.Type())) {
			continue
		}
		if edgeDominates(c.Block, c.Block.Succs[0], b) {
			out = append(out, c.Cond)
		} else if edgeDominates(c.Block, c.Block.Succs[1], b) {
			out = append(out, c.Cond.Negate())
		}
	}
	return out
}
