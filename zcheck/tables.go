package main

import (
	_ "embed"
	"encoding/json"
	"strings"
)

//go:embed tables/impl_guards.json
var implGuardsJSON []byte

//go:embed tables/impl_effects.json
var implEffectsJSON []byte

type tableRow struct {
	F    string `json:"f"`
	C    string `json:"c"`
	File string `json:"file"`
}

func loadTable(b []byte) []tableRow {
	var rows []tableRow
	if err := json.Unmarshal(b, &rows); err != nil {
		panic("bad embedded table: " + err.Error())
	}
	return rows
}

// GuardTable checks every row of the embedded contract guard table selected by keep. The table was
// generated from the reviewed tree (zcheck -gentable) and is frozen: each row is a rejection a
// contract method performs today, in normal form (relation over access paths + branch context).
func (r *Run) GuardTable(keep func(tableRow) bool, why string) int {
	n := 0
	for _, row := range loadTable(implGuardsJSON) {
		if !keep(row) {
			continue
		}
		n++
		r.Guard(row.F, row.C, why)
	}
	if n == 0 {
		r.viol("vacuous-rule", "", "guard table", "no table row selected", why, "", 0)
	}
	return n
}

// EffectTable checks every selected row of the embedded contract effect table (stores into records
// and descendant blocks, Save/Delete, balance moves, big.Int mutation of record fields).
func (r *Run) EffectTable(keep func(tableRow) bool, why string) int {
	n := 0
	byFn := map[string]map[string]bool{}
	for _, row := range loadTable(implEffectsJSON) {
		if !keep(row) {
			continue
		}
		n++
		set, ok := byFn[row.F]
		if !ok {
			set = map[string]bool{}
			if fn := r.fn(row.F); fn != nil {
				for _, e := range r.P.Effects(fn) {
					set[e.Canon] = true
				}
			}
			byFn[row.F] = set
		}
		if r.P.Fn(row.F) == nil {
			continue // unresolved anchor already reported once by r.fn
		}
		fn := r.P.Fn(row.F)
		file, line := r.P.FnPos(fn)
		if set[row.C] {
			r.pass("K4-effect", row.F, row.C, "", why, file, line)
		} else {
			head := row.C
			if i := strings.Index(head, " = "); i > 0 && strings.HasPrefix(head, "store ") {
				head = head[:i]
			} else if i := strings.Index(head, "("); i > 0 {
				head = head[:i]
			}
			var near []string
			for c := range set {
				if strings.HasPrefix(c, head) {
					near = append(near, c)
				}
			}
			d := row.F + " no longer performs `" + row.C + "`"
			if len(near) > 0 && len(near) < 4 {
				d += "; it now has: " + strings.Join(near, " ; ")
			}
			r.viol("K4-effect", row.F, row.C, d, why, file, line)
		}
	}
	if n == 0 {
		r.viol("vacuous-rule", "", "effect table", "no table row selected", why, "", 0)
	}
	return n
}

func fileIn(files ...string) func(tableRow) bool {
	set := map[string]bool{}
	for _, f := range files {
		set[f] = true
	}
	return func(t tableRow) bool { return set[t.File] }
}
