package main

import (
	_ "embed"
	"encoding/json"
	"fmt"
	"sort"
	"strings"

	"golang.org/x/tools/go/ssa"
)

//go:embed tables/impl_guards.json
var implGuardsJSON []byte

//go:embed tables/impl_effects.json
var implEffectsJSON []byte

type tableRow struct {
	F    string `json:"f"`
	C    string `json:"c"`
	File string `json:"file"`
}

func loadTable(b []byte) []tableRow {
	var rows []tableRow
	if err := json.Unmarshal(b, &rows); err != nil {
		panic("bad embedded table: " + err.Error())
	}
	return rows
}

// GuardTable checks every row of the embedded contract guard table selected by keep. The table was
// generated from the reviewed tree (zcheck -gentable) and is frozen: each row is a rejection a
// contract method performs today, in normal form (relation over access paths + branch context).
func (r *Run) GuardTable(keep func(tableRow) bool, why string) int {
	n := 0
	for _, row := range loadTable(implGuardsJSON) {
		if !keep(row) {
			continue
		}
		n++
		r.Guard(row.F, row.C, why)
	}
	if n == 0 {
		r.viol("vacuous-rule", "", "guard table", "no table row selected", why, "", 0)
	}
	return n
}

// EffectTable checks every selected row of the embedded contract effect table (stores into records
// and descendant blocks, Save/Delete, balance moves, big.Int mutation of record fields).
func (r *Run) EffectTable(keep func(tableRow) bool, why string) int {
	n := 0
	byFn := map[string]map[string]bool{}
	for _, row := range loadTable(implEffectsJSON) {
		if !keep(row) {
			continue
		}
		n++
		set, ok := byFn[row.F]
		if !ok {
			set = map[string]bool{}
			if fn := r.fn(row.F); fn != nil {
				for _, e := range r.P.Effects(fn) {
					set[e.Canon] = true
				}
			}
			byFn[row.F] = set
		}
		if r.P.Fn(row.F) == nil {
			continue // unresolved anchor already reported once by r.fn
		}
		fn := r.P.Fn(row.F)
		file, line := r.P.FnPos(fn)
		if set[row.C] {
			r.pass("K4-effect", row.F, row.C, "", why, file, line)
		} else if implicitZeroStore(set, row.C) {
			r.pass("K4-effect", row.F, row.C, "implicit: the field of the fresh allocation is never written, so it keeps its zero value", why, file, line)
		} else {
			head := row.C
			if i := strings.Index(head, " = "); i > 0 && strings.HasPrefix(head, "store ") {
				head = head[:i]
			} else if i := strings.Index(head, "("); i > 0 {
				head = head[:i]
			}
			var near []string
			for c := range set {
				if strings.HasPrefix(c, head) {
					near = append(near, c)
				}
			}
			d := row.F + " no longer performs `" + row.C + "`"
			if len(near) > 0 && len(near) < 4 {
				d += "; it now has: " + strings.Join(near, " ; ")
			}
			r.viol("K4-effect", row.F, row.C, d, why, file, line)
		}
	}
	if n == 0 {
		r.viol("vacuous-rule", "", "effect table", "no table row selected", why, "", 0)
	}
	return n
}

func fileIn(files ...string) func(tableRow) bool {
	set := map[string]bool{}
	for _, f := range files {
		set[f] = true
	}
	return func(t tableRow) bool { return set[t.File] }
}

// implicitZeroStore: an expected `store new(T).F = <zero>` into a fresh allocation is also satisfied
// when the function never writes that field at all (a composite literal that omits a zero field).
func implicitZeroStore(effects map[string]bool, canon string) bool {
	if !strings.HasPrefix(canon, "store new(") {
		return false
	}
	i := strings.LastIndex(canon, " = ")
	if i < 0 {
		return false
	}
	lhs, rhs := canon[:i], canon[i+3:]
	switch {
	case rhs == "0", rhs == "nil", rhs == "false", rhs == `""`, strings.HasPrefix(rhs, "zero("):
	default:
		return false
	}
	// only direct fields of the allocation: new(T).F (no index, no nested call)
	rest := lhs[len("store new("):]
	j := strings.Index(rest, ").")
	if j < 0 || strings.ContainsAny(rest[j+2:], "[(") {
		return false
	}
	for c := range effects {
		if strings.HasPrefix(c, lhs+" = ") || strings.HasPrefix(c, lhs+".") || strings.HasPrefix(c, lhs+"[") {
			return false
		}
	}
	// the allocation itself must still exist in the function
	alloc := lhs[len("store "):strings.Index(lhs, ").")+1]
	for c := range effects {
		if strings.Contains(c, alloc) {
			return true
		}
	}
	return false
}

//go:embed tables/pure_shapes.json
var pureShapesJSON []byte

// shapeOf: the complete observable shape of a small pure helper — every branch condition and every
// result form, in normal form.
func (r *Run) shapeOf(fn *ssa.Function) []string {
	set := map[string]bool{}
	for _, g := range r.P.Info(fn).guards {
		c := g.Cond
		// one polarity
		s, n := c.String(), c.Negate().String()
		if n < s {
			s = n
		}
		set["branch "+s] = true
	}
	for _, e := range r.P.Effects(fn) {
		switch {
		case e.Kind == "return":
			set[e.Canon] = true
		case strings.Contains(e.Canon, "interface{}") || strings.Contains(e.Canon, "[]any") || strings.Contains(e.Canon, "Log.") || strings.Contains(e.Canon, "log.") || strings.HasPrefix(e.Canon, "fmt."):
			// logging and its argument arrays
		case e.Kind == "call" && (strings.HasPrefix(e.Callee, "(*math/big.Int).") || strings.HasPrefix(e.Callee, "math/big.") || strings.HasPrefix(e.Callee, "common.M")):
			set["calc "+e.Canon] = true
		case e.Kind == "store":
			set[e.Canon] = true
		}
	}
	var out []string
	for s := range set {
		out = append(out, s)
	}
	sort.Strings(out)
	return out
}

// PureShapes: the listed arithmetic/time-window helpers have exactly the frozen branch conditions
// and result expressions. They are a few lines each and have no effects, so any difference is a
// different function (a changed modulus, operand or boundary), not a refactor.
func (r *Run) PureShapes(fnNames []string, why string) {
	var rows []tableRow
	if err := json.Unmarshal(pureShapesJSON, &rows); err != nil {
		panic("bad embedded table: " + err.Error())
	}
	want := map[string]map[string]bool{}
	for _, row := range rows {
		if want[row.F] == nil {
			want[row.F] = map[string]bool{}
		}
		want[row.F][row.C] = true
	}
	for _, name := range fnNames {
		fn := r.fn(name)
		if fn == nil {
			continue
		}
		file, line := r.P.FnPos(fn)
		w := want[name]
		if len(w) == 0 {
			r.viol("vacuous-rule", name, "pure shape", "no frozen shape for "+name, why, file, line)
			continue
		}
		got := map[string]bool{}
		for _, s := range r.shapeOf(fn) {
			got[s] = true
		}
		var missing, extra []string
		for s := range w {
			if !got[s] {
				missing = append(missing, s)
			}
		}
		for s := range got {
			if !w[s] {
				extra = append(extra, s)
			}
		}
		sort.Strings(missing)
		sort.Strings(extra)
		if len(missing)+len(extra) > 0 {
			r.viol("K4-pure-shape", name, "branch conditions and result forms", fmt.Sprintf("%s computes something else now; gone: %v; new: %v", name, missing, extra), why, file, line)
			continue
		}
		r.pass("K4-pure-shape", name, "branch conditions and result forms", fmt.Sprintf("%d forms", len(w)), why, file, line)
	}
}
