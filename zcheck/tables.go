package main

import (
	_ "embed"
	"encoding/json"
	"strings"
)

//go:embed tables/impl_guards.json
var implGuardsJSON []byte

//go:embed tables/impl_effects.json
var implEffectsJSON []byte

type tableRow struct {
	F    string `json:"f"`
	C    string `json:"c"`
	File string `json:"file"`
}

func loadTable(b []byte) []tableRow {
	var rows []tableRow
	if err := json.Unmarshal(b, &rows); err != nil {
		panic("bad embedded table: " + err.Error())
	}
	return rows
}

// GuardTable checks every row of the embedded contract guard table selected by keep. The table was
// generated from the reviewed tree (zcheck -gentable) and is frozen: each row is a rejection a
// contract method performs today, in normal form (relation over access paths + branch context).
func (r *Run) GuardTable(keep func(tableRow) bool, why string) int {
	n := 0
	for _, row := range loadTable(implGuardsJSON) {
		if !keep(row) {
			continue
		}
		n++
		r.Guard(row.F, row.C, why)
	}
	if n == 0 {
		r.viol("vacuous-rule", "", "guard table", "no table row selected", why, "", 0)
	}
	return n
}

// EffectTable checks every selected row of the embedded contract effect table (stores into records
// and descendant blocks, Save/Delete, balance moves, big.Int mutation of record fields).
func (r *Run) EffectTable(keep func(tableRow) bool, why string) int {
	n := 0
	byFn := map[string]map[string]bool{}
	for _, row := range loadTable(implEffectsJSON) {
		if !keep(row) {
			continue
		}
		n++
		set, ok := byFn[row.F]
		if !ok {
			set = map[string]bool{}
			if fn := r.fn(row.F); fn != nil {
				for _, e := range r.P.Effects(fn) {
					set[e.Canon] = true
				}
			}
			byFn[row.F] = set
		}
		if r.P.Fn(row.F) == nil {
			continue // unresolved anchor already reported once by r.fn
		}
		fn := r.P.Fn(row.F)
		file, line := r.P.FnPos(fn)
		if set[row.C] {
			r.pass("K4-effect", row.F, row.C, "", why, file, line)
		} else if implicitZeroStore(set, row.C) {
			r.pass("K4-effect", row.F, row.C, "implicit: the field of the fresh allocation is never written, so it keeps its zero value", why, file, line)
		} else {
			head := row.C
			if i := strings.Index(head, " = "); i > 0 && strings.HasPrefix(head, "store ") {
				head = head[:i]
			} else if i := strings.Index(head, "("); i > 0 {
				head = head[:i]
			}
			var near []string
			for c := range set {
				if strings.HasPrefix(c, head) {
					near = append(near, c)
				}
			}
			d := row.F + " no longer performs `" + row.C + "`"
			if len(near) > 0 && len(near) < 4 {
				d += "; it now has: " + strings.Join(near, " ; ")
			}
			r.viol("K4-effect", row.F, row.C, d, why, file, line)
		}
	}
	if n == 0 {
		r.viol("vacuous-rule", "", "effect table", "no table row selected", why, "", 0)
	}
	return n
}

func fileIn(files ...string) func(tableRow) bool {
	set := map[string]bool{}
	for _, f := range files {
		set[f] = true
	}
	return func(t tableRow) bool { return set[t.File] }
}

// implicitZeroStore: an expected `store new(T).F = <zero>` into a fresh allocation is also satisfied
// when the function never writes that field at all (a composite literal that omits a zero field).
func implicitZeroStore(effects map[string]bool, canon string) bool {
	if !strings.HasPrefix(canon, "store new(") {
		return false
	}
	i := strings.LastIndex(canon, " = ")
	if i < 0 {
		return false
	}
	lhs, rhs := canon[:i], canon[i+3:]
	switch {
	case rhs == "0", rhs == "nil", rhs == "false", rhs == `""`, strings.HasPrefix(rhs, "zero("):
	default:
		return false
	}
	// only direct fields of the allocation: new(T).F (no index, no nested call)
	rest := lhs[len("store new("):]
	j := strings.Index(rest, ").")
	if j < 0 || strings.ContainsAny(rest[j+2:], "[(") {
		return false
	}
	for c := range effects {
		if strings.HasPrefix(c, lhs+" = ") || strings.HasPrefix(c, lhs+".") || strings.HasPrefix(c, lhs+"[") {
			return false
		}
	}
	// the allocation itself must still exist in the function
	alloc := lhs[len("store "):strings.Index(lhs, ").")+1]
	for c := range effects {
		if strings.Contains(c, alloc) {
			return true
		}
	}
	return false
}
