#!/bin/bash
# usage: refactor_matrix.sh <dir-with-R*.diff> — apply each behaviour-preserving patch to /repo, run all
# twenty quick checks, undo; print SILENT or the properties/rules that raised a (false) alarm.
cd /verif || exit 2
for d in "$@"; do
 for b in $d/R*.diff; do
  [ -f "$b" ] || continue
  out=$(tools/try_patch.sh $(realpath $b) C01 C02 C03 C04 C05 C06 C07 C08 C09 C10 C11 C12 C13 C14 C15 C16 C17 C18 C19 C20 2>&1 | grep -v "^KNOWN-FINDING")
  if echo "$out" | grep -q "patch does not apply"; then echo "$b NOAPPLY"; continue; fi
  fired=$(echo "$out" | grep -c "^VIOLATION")
  if [ "$fired" = 0 ]; then echo "$b SILENT"; else echo "$b ALARM props=$(echo "$out" | grep '^VIOLATION' | sed 's/.*property=\(C[0-9]*\).*/\1/' | sort -u | tr '\n' ',') $(echo "$out" | grep -A2 '^VIOLATION' | grep -v '^VIOLATION\|^--' | head -2 | tr '\n' ' ' | cut -c1-420)"; fi
 done
done
