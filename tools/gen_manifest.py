#!/usr/bin/env python3
"""Regenerates /verif/MANIFEST.json from the properties registered in zcheck (-describe)."""
import json, subprocess, sys, os
V = "/verif"
desc = json.loads(subprocess.check_output([V + "/bin/zcheck", "-describe"]))
ids = [json.loads(l)["id"] for l in open(V + "/properties.jsonl") if l.strip()]
claimed = {d["id"]: d for d in desc}
BASE = "cd /repo && go test -mod=mod -json -vet=off -count=1 -timeout 25m ./..."
ENV = "GOFLAGS=-mod=mod GOPROXY=off GOSUMDB=off GOTOOLCHAIN=local"
trusted = ("Trusted base: Go type checker and go/ssa construction; CHA call graph sound for non-reflective calls; reflection-driven code "
           "(vm/abi, rpc/server dispatch) analysed only at its non-reflective boundary; goleveldb, go-ethereum rlp, crypto libraries. "
           "A discharged structural rule is a necessary condition of the property, not the property. NOT decided: ")
m = {
    "version": 1,
    "setup_cmd": "cd /verif/zcheck && env -u GOWORK %s go build -o /verif/bin/zcheck ." % ENV,
    "hooks": {"guard": "verif", "enable": "none needed: static analysis reads the source; no instrumentation is compiled in",
              "baseline_off_cmd": BASE, "source_commits": [], "add_only": True},
    "engines": [{"name": "zcheck", "path": "zcheck", "serves_properties": sorted(claimed),
                 "kind_free_text": "repository-specific static analyser over go/packages + go/ssa + CHA/VTA call graphs: normalised guard specs over access paths, must-pass-through/dominance on the CFG, who-may-call, sibling agreement, lockset, nil-discipline, panic/recover reachability, determinism lint, encoding agreement, bounded quantities"}],
    "checks": [],
    "not_applicable": [],
    "notes": "All checks are static (no code of /repo is executed). Each rebuilds its view from /repo's working tree on every run (go/packages load through a -modfile copy; /repo is never written). See DESIGN.md.",
}
na_reasons = {}
p = V + "/tools/not_applicable.json"
if os.path.exists(p):
    na_reasons = json.load(open(p))
for i in ids:
    if i in claimed:
        d = claimed[i]
        m["checks"].append({
            "property_id": i,
            "quick_cmd": "./bin/zcheck -property %s -tier quick" % i,
            "thorough_cmd": "./bin/zcheck -property %s -tier thorough" % i,
            "evidence_file": "/verif/evidence/%s.json" % i,
            "replay_cmd_template": "./bin/zcheck -replay {path}",
            "engine": "zcheck",
            "level_claimed": {"category": "other",
                              "text": "Static analysis of the resolved program (type-checked packages, SSA, CFG dominance, call graph). " + d["explain"],
                              "design_ref": "DESIGN.md §4 " + i},
            "level_note": trusted + d["not_decided"],
            "technique": "static analysis: repo-specific rules over go/ssa (guard specs on access paths, CFG dominance / must-pass-through, call-graph who-may-call, sibling agreement); thorough adds overlay-seeded positive controls",
        })
    else:
        m["not_applicable"].append({"property_id": i, "reason": na_reasons.get(i, "no static rule built yet for this property in this commit; not claimed")})
json.dump(m, open(V + "/MANIFEST.json", "w"), indent=1)
print("claimed:", sorted(claimed), "not applicable:", [x["property_id"] for x in m["not_applicable"]])
