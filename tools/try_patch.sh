#!/bin/bash
# usage: try_patch.sh <patch.diff> <prop> [prop...] — apply to /repo, run quick checks, always undo.
P="$1"; shift
cd /repo || exit 2
if [ -n "$(git status --porcelain)" ]; then echo "repo dirty, refusing"; exit 2; fi
git apply "$P" || { echo "patch does not apply"; exit 2; }
trap 'git -C /repo checkout -- . ; git -C /repo status --short' EXIT
cd /verif
for id in "$@"; do
  ./bin/zcheck -property $id -tier quick 2>&1 | grep -v "^WARNING" | cut -c1-700
done
