#!/bin/bash
# usage: try_patch.sh <patch.diff> <prop> [prop...] — apply to /repo, run quick checks (8 at a time), always undo.
P="$1"; shift
cd /repo || exit 2
if [ -n "$(git status --porcelain)" ]; then echo "repo dirty, refusing"; exit 2; fi
git apply "$P" || { echo "patch does not apply"; exit 2; }
trap 'git -C /repo checkout -- . ; git -C /repo clean -fdq -- . 2>/dev/null; git -C /repo status --short' EXIT
cd /verif
if [ $# -le 2 ]; then
  for id in "$@"; do ./bin/zcheck -property $id -tier quick 2>&1 | grep -v "^WARNING" | cut -c1-700; done
else
  T=$(mktemp -d)
  printf "%s\n" "$@" | xargs -P 8 -I{} sh -c "./bin/zcheck -property {} -tier quick > $T/{}.out 2>&1" 2>/dev/null
  for id in "$@"; do grep -v "^WARNING" $T/$id.out | cut -c1-700; done
  rm -rf $T
fi
