#!/bin/bash
# Behaviour-preserving edits (findings/benign/B*.diff) must leave every check silent; the two
# M*.diff edits (new early accepting paths) must be reported. Applies each to /repo, runs all quick
# checks of the properties whose scope contains the touched files, always undoes.
cd /verif || exit 2
for b in findings/benign/*.diff; do
  n=$(basename $b .diff)
  out=$(tools/try_patch.sh /verif/$b C01 C02 C03 C04 C05 C06 C07 C08 C09 C10 C11 C12 C13 C14 C15 C16 C17 C18 C19 C20 2>&1 | grep -v "^KNOWN-FINDING")
  fired=$(echo "$out" | grep -c "^VIOLATION")
  case $n in
    B*) if [ "$fired" = 0 ]; then echo "$n SILENT (ok)"; else echo "$n FALSE-ALARM: $(echo "$out" | grep -A1 '^VIOLATION' | grep rule= | head -2 | tr '\n' ' ' | cut -c1-300)"; fi;;
    M*) if [ "$fired" != 0 ]; then echo "$n REPORTED (ok)"; else echo "$n MISSED"; fi;;
  esac
done
