#!/bin/bash
# usage: verify_seed.sh <ID> <A|B> <demo-src-file> <demo-dest-rel-dir> <go-test-run-regex> [nofull]
# Confirms a seeded change in a scratch worktree: demo passes without it, fails with it, the
# existing suite still compiles and passes with it. Writes /verif/seeded/<ID>-<x>/{patch.diff,demo,meta.json}.
set -u
ID=$1; X=$2; DEMO=$3; DEST=$4; RUN=$5; NOFULL=${6:-}
export GOFLAGS=-mod=mod GOPROXY=off GOSUMDB=off GOTOOLCHAIN=local
unset GOWORK
SRC=${SEEDROOT:-/tmp/seed}/$ID.out/$X
WT=/tmp/seedverify/$ID-$X
LOG=/tmp/seedverify/$ID-$X.log
mkdir -p /tmp/seedverify; rm -rf $WT; : > $LOG
git -C /repo worktree add --detach $WT HEAD >>$LOG 2>&1 || exit 2
cleanup() { git -C /repo worktree remove --force $WT >>$LOG 2>&1; }
trap cleanup EXIT
TREE=""
if [ -d "$DEMO" ] && [ -n "$(find $DEMO -mindepth 2 -type f -name '*.go' | head -1)" ]; then
  # demo/ mirrors the repository layout
  TREE=1; (cd $DEMO && find . -type f -name '*.go') > $WT/.demofiles; (cd $DEMO && tar cf - .) | (cd $WT && tar xf -) || exit 2
elif [ -d "$DEMO" ]; then cp $DEMO/*.go $WT/$DEST/ || exit 2; DEMOFILES=$(cd $DEMO && ls *.go); else cp $DEMO $WT/$DEST/ || exit 2; DEMOFILES=$(basename $DEMO); fi
PKG=./$DEST/
cd $WT
echo "== demo WITHOUT change" >>$LOG
go test -vet=off -count=1 -run "$RUN" $PKG >>$LOG 2>&1; R0=$?
git apply $SRC/patch.diff >>$LOG 2>&1 || { echo "patch fails to apply" >>$LOG; exit 2; }
echo "== demo WITH change" >>$LOG
go test -vet=off -count=1 -run "$RUN" $PKG >>$LOG 2>&1; R1=$?
if [ -n "$TREE" ]; then (cd $WT && xargs rm -f < .demofiles; rm -f .demofiles); else for f in $DEMOFILES; do rm -f $WT/$DEST/$f; done; fi
echo "== build + compile tests" >>$LOG
go build ./... >>$LOG 2>&1 && go test -vet=off -count=1 -run '^$' ./... >>$LOG 2>&1; RB=$?
RS=skipped
if [ -z "$NOFULL" ]; then
  echo "== full suite WITH change" >>$LOG
  go test -vet=off -count=1 -timeout 25m ./... > $LOG.suite 2>&1; RS=$?
  # the wall-clock benchmark is in BASELINE.always_fail (load dependent): not counted
  if [ $RS -ne 0 ] && [ "$(grep -E '^--- FAIL' $LOG.suite | grep -v TestSimple_MomentumInsertionBenchmark | wc -l)" = 0 ] && ! grep -qE 'panic:|build failed|cannot' $LOG.suite; then RS=0; fi
  grep -E "^(FAIL|ok|---)" $LOG.suite | grep -v "^ok" >>$LOG
fi
echo "RESULT $ID-$X demo_without=$R0 demo_with=$R1 build=$RB suite=$RS" | tee -a $LOG
if [ $R0 -eq 0 ] && [ $R1 -ne 0 ] && [ $RB -eq 0 ] && { [ "$RS" = 0 ] || [ "$RS" = skipped ]; }; then
  OUT=/verif/seeded/$ID-$X; mkdir -p $OUT/demo
  cp $SRC/patch.diff $OUT/; if [ -d "$DEMO" ]; then cp -r $DEMO/. $OUT/demo/; else cp $DEMO $OUT/demo/; fi; cp $SRC/notes.md $OUT/notes.md
  python3 - "$ID" "$X" "$DEST" "$RUN" "$R0" "$R1" "$RB" "$RS" > $OUT/meta.json <<'PY'
import json,sys
ID,X,DEST,RUN,R0,R1,RB,RS=sys.argv[1:9]
print(json.dumps({"property":ID,"variant":X,"demo_dest":DEST,"demo_cmd":"go test -vet=off -count=1 -run '%s' ./%s/"%(RUN,DEST),
 "confirmed":{"demo_without_change_exit":int(R0),"demo_with_change_exit":int(R1),"build_and_test_compile_exit":int(RB),"existing_suite_with_change_exit":RS},
 "what_i_ran":"tools/verify_seed.sh in a scratch worktree of /repo HEAD (removed afterwards)","needs_to_manifest":"see notes.md"},indent=1))
PY
  echo KEPT $OUT
fi
