#!/bin/bash
# development aid: run the thorough tier of every claimed property and list controls that were skipped or did not fire
cd /verif
for id in $(./bin/zcheck -describe | python3 -c "import json,sys; print(' '.join(d['id'] for d in json.load(sys.stdin)))"); do
  ./bin/zcheck -property $id -tier thorough > /tmp/ctl.$id.out 2>&1
  python3 - $id <<'PY'
import json,sys
id=sys.argv[1]
e=json.load(open('/verif/evidence/%s.json'%id))
bad=[(c['name'],c.get('detail','')[:60]) for c in e['coverage'].get('positive_controls',[]) if not c['fired']]
print(id, 'controls:', len(e['coverage'].get('positive_controls',[])), 'not fired/skipped:', bad, 'violations:', e['violations'])
PY
done
