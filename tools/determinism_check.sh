#!/bin/bash
# development aid: every check must produce the same obligations on repeated runs
cd /verif
for id in $(./bin/zcheck -describe | python3 -c "import json,sys; print(' '.join(d['id'] for d in json.load(sys.stdin)))"); do
  for i in 1 2 3; do
    ./bin/zcheck -property $id >/dev/null 2>&1
    python3 -c "
import json,hashlib
e=json.load(open('/verif/evidence/$id.json'))
print(e['coverage']['obligations'], e['coverage']['discharged'], e['violations'], hashlib.md5(json.dumps(e['coverage']['samples'],sort_keys=True).encode()).hexdigest())"
  done | sort -u | wc -l | xargs echo $id distinct-results:
done
