#!/bin/bash
# usage: seed_matrix.sh [seed-dir-names…] — for every kept seeded change: apply to /repo, run the quick
# check of its own property, undo. Prints one line per seed: CAUGHT / MISSED / NOAPPLY + first rule.
cd /verif || exit 2
seeds="$@"; [ -z "$seeds" ] && seeds=$(ls seeded)
for s in $seeds; do
  id=${s%%-*}
  out=$(tools/try_patch.sh /verif/seeded/$s/patch.diff $id 2>&1)
  if echo "$out" | grep -q "patch does not apply\|repo dirty"; then echo "$s NOAPPLY $(echo "$out" | head -2 | tr '\n' ' ' | cut -c1-150)"; continue; fi
  if echo "$out" | grep -q "^VIOLATION property=$id"; then
    echo "$s CAUGHT $(echo "$out" | grep -A1 '^VIOLATION' | grep 'rule=' | head -1 | cut -c1-160)"
  else
    echo "$s MISSED $(echo "$out" | tail -1 | cut -c1-120)"
  fi
done
